#![no_main]
use libfuzzer_sys::fuzz_target;
use sdmmc_verif::fuzzing;

// The oracle (and, for the shared targets, the property) is chosen with VERIF_FUZZ_PROP;
// see harness/src/fuzzing.rs for the byte decoders.
fuzz_target!(|data: &[u8]| {
    let prop = fuzzing::prop_from_env("C17", &["C01", "C02", "C03", "C04", "C05", "C06", "C07", "C08", "C09", "C10", "C11", "C12", "C13", "C14", "C15", "C16", "C17"]);
    if fuzzing::target_of(prop) == "dir" {
        fuzzing::fuzz_entry(prop, data);
    }
});
