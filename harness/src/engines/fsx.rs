//! History engine shared by the file-system properties: one generated case
//! (geometry + tree + op list) is executed against crate and model, and the
//! oracle of the property being checked runs after every call.

use crate::fsck::{self, FatView};
use crate::gen::{self, FatPick, VolBias};
use crate::interp::{self, Case, Divergence, Interp, Opts, StepInfo};
use crate::mkfs::{FsInfoKind, Layout};
use crate::ops::{self, NameSel, Op, Profile, Step};
use crate::runner::{is_open_known, Acc, Failure, KnownFinding, Tier};
use crate::simdisk::{Image, Img};
use proptest::prelude::*;
use serde_json::json;

#[derive(Clone)]
pub struct FsxCfg {
    pub prop: &'static str,
    pub profile: Profile,
    pub bias: VolBias,
    pub multi: bool,
    pub steps: (usize, usize),
    pub all_cfgs: bool,
    /// one history in five ends in a burst of 17..40 creates of fresh names in one directory (with a
    /// listing and a lookup in between and at the end), so that a directory grows by a cluster and the
    /// new cluster is then filled block by block
    pub bursts: bool,
}

pub fn cfg_for(prop: &'static str) -> FsxCfg {
    let base = FsxCfg {
        prop,
        profile: Profile::rw(),
        bias: VolBias { full_dirs: true, ..VolBias::default() },
        multi: true,
        bursts: matches!(prop, "C03" | "C06"),
        steps: (1, 60),
        all_cfgs: false,
    };
    match prop {
        "C01" => base,
        "C02" => FsxCfg {
            profile: Profile { remount: 2, open_dir: 5, ..Profile::mixed() },
            bias: VolBias { full_dirs: true, ..VolBias::default() },
            steps: (1, 45),
            ..base
        },
        "C03" => FsxCfg {
            profile: Profile { invalid_names: 1, open_dir: 5, ..Profile::mixed() },
            bias: VolBias { tight: true, full_dirs: true, ..VolBias::default() },
            steps: (1, 45),
            ..base
        },
        "C04" => FsxCfg {
            profile: Profile { remount: 0, open_dir: 5, ..Profile::mixed() },
            bias: VolBias { tight: true, full_dirs: true, ..VolBias::default() },
            steps: (1, 40),
            ..base
        },
        "C05" => FsxCfg {
            profile: Profile { read: 2, seek: 4, delete: 10, mkdir: 4, open: 18, close: 14, write: 22, check_all: 1, open_dir: 5, ..Profile::mixed() },
            bias: VolBias { tight: true, full_dirs: true, ..VolBias::default() },
            steps: (1, 50),
            ..base
        },
        "C16" => FsxCfg {
            profile: Profile { read: 2, seek: 4, delete: 8, mkdir: 4, open: 18, close: 10, flush: 8, close_volume: 4, open_volume: 4, open_root: 4, write: 22, check_all: 0, ..Profile::mixed() },
            bias: VolBias { pick: FatPick::Fat32, tight: true, full_dirs: true, ..VolBias::default() },
            steps: (1, 45),
            ..base
        },
        "C07" => FsxCfg {
            profile: Profile { invalid_names: 3, open: 30, delete: 10, mkdir: 8, write: 10, read: 4, seek: 3, open_dir: 4, close: 8, find: 2, modes: [2, 2, 2, 2, 2, 2], ..Profile::mixed() },
            steps: (1, 40),
            ..base
        },
        "C08" => FsxCfg {
            profile: Profile {
                open_volume: 6, close_volume: 6, open_root: 8, open_dir: 8, change_dir: 3, close_dir: 8, open: 14, close: 10,
                stale: 9, reenter: 6, has_open: 6, long_history: 2, write: 3, read: 2, mkdir: 2, delete: 2, label: 2, flush: 1, seek: 1, query: 1,
                check_all: 1, remount: 1, find: 1, list: 1, invalid_names: 0, modes: [3, 2, 1, 2, 1, 3], weird_seeks: false,
            },
            steps: (1, 60),
            all_cfgs: true,
            ..base
        },
        "C06" => FsxCfg {
            profile: Profile { list: 14, find: 12, open_dir: 10, change_dir: 3, close_dir: 5, delete: 8, mkdir: 8, open: 12, close: 8, write: 6, read: 2, seek: 1, check_all: 0, ..Profile::mixed() },
            steps: (1, 45),
            ..base
        },
        _ => base,
    }
}

pub fn strategy(cfg: &FsxCfg) -> BoxedStrategy<Case> {
    let plain = prop::collection::vec(ops::step_strategy(&cfg.profile), cfg.steps.0..cfg.steps.1);
    let steps = if cfg.bursts {
        let burst = (any::<u16>(), 17u8..40, any::<u8>(), any::<u8>()).prop_map(|(d, n, first, surf)| {
            let mut v = Vec::new();
            for i in 0..n {
                v.push(Step { op: Op::Open { d, name: NameSel::Fresh(first.wrapping_add(i)), mode: 3 }, surf, tick: 3 });
                v.push(Step { op: Op::Close { f: 0xFFFF, drop_only: false }, surf, tick: 1 });
                if i % 8 == 7 {
                    v.push(Step { op: Op::List { d }, surf, tick: 1 });
                }
            }
            v.push(Step { op: Op::List { d }, surf, tick: 1 });
            v.push(Step { op: Op::Find { d, name: NameSel::Fresh(first) }, surf, tick: 1 });
            v
        });
        prop_oneof![
            4 => plain,
            1 => (prop::collection::vec(ops::step_strategy(&cfg.profile), cfg.steps.0..cfg.steps.1.min(16)), burst).prop_map(|(mut a, b)| { a.extend(b); a }),
        ]
        .boxed()
    } else {
        plain.boxed()
    };
    let lim = if cfg.all_cfgs { (0u8..12).boxed() } else { prop_oneof![6 => Just(0u8), 1 => Just(4u8), 1 => Just(11u8), 1 => Just(6u8)].boxed() };
    (lim, prop_oneof![3 => (0u32..100_000), 1 => (u32::MAX - 60..=u32::MAX)], any::<u32>(), gen::disk_strategy(cfg.bias, cfg.multi), steps)
        .prop_map(|(cfg, id_offset, clock0, disk, steps)| Case { cfg, id_offset, clock0, disk, steps })
        .boxed()
}

pub struct VolTrack {
    pub slot: usize,
    pub lay: Layout,
    /// stored free count / next-free and actual free count when the volume was opened
    pub mount: Option<(u32, u32, u32)>,
    pub changed_since_mount: bool,
}

pub struct Ctx<'a> {
    pub cfg: &'a FsxCfg,
    pub initial: Image,
    pub vols: Vec<VolTrack>,
    pub failures: Vec<Failure>,
}

fn fail(prop: &str, code: &str, detail: String) -> Failure {
    Failure { sig: format!("{}/{}", prop, code), detail }
}

/// C03: structural check of every volume after a call.
pub fn check_structure(it: &Interp, ctx: &Ctx, mode: fsck::Mode) -> Option<Failure> {
    let pend = it.pending();
    for vt in &ctx.vols {
        let p: Vec<fsck::Pending> = pend.iter().filter(|(s, _)| *s == vt.slot).map(|(_, p)| p.clone()).collect();
        let r = it.disk.with_img(|img| {
            let fv = FatView::new(img, &vt.lay);
            let w = fsck::walk(img, &fv, &p);
            fsck::check_tree(&w, &vt.lay, mode)
        });
        if let Some(v) = r.first() {
            return Some(fail("C03", v.code, format!("volume in slot {}: {}", vt.slot, v.detail)));
        }
    }
    None
}

/// C05(a): with no file open, in-use FAT entries == clusters reachable from the root.
pub fn check_accounting(it: &Interp, ctx: &Ctx) -> Option<Failure> {
    for vt in &ctx.vols {
        let r = it.disk.with_img(|img| {
            let fv = FatView::new(img, &vt.lay);
            let w = fsck::walk(img, &fv, &[]);
            let inuse = fsck::in_use_set(&fv);
            let reach = fsck::reachable_set(&w);
            if inuse == reach {
                None
            } else {
                let leaked: Vec<u32> = inuse.difference(&reach).copied().take(8).collect();
                let invented: Vec<u32> = reach.difference(&inuse).copied().take(8).collect();
                Some((leaked, invented, inuse.len(), reach.len()))
            }
        });
        if let Some((leaked, invented, a, b)) = r {
            if !leaked.is_empty() {
                return Some(fail("C05", "leaked-clusters", format!("slot {}: {} clusters marked in use but {} reachable; unreachable e.g. {:?}", vt.slot, a, b, leaked)));
            }
            return Some(fail("C05", "reachable-but-free", format!("slot {}: clusters {:?} are part of a live chain but marked free", vt.slot, invented)));
        }
    }
    None
}

pub fn check_fat_copies(it: &Interp, ctx: &Ctx) -> Option<Failure> {
    for vt in &ctx.vols {
        if vt.lay.num_fats < 2 {
            continue;
        }
        if let Some((copy, s)) = it.disk.with_img(|img| fsck::fat_copies_differ(img, &vt.lay)) {
            return Some(fail("C16", "fat-copies-differ", format!("slot {}: FAT copy {} differs from the first in sector {}", vt.slot, copy, s)));
        }
    }
    None
}

fn fsinfo_now(it: &Interp, lay: &Layout) -> Option<(u32, u32, u32)> {
    it.disk.with_img(|img| {
        let (c, n) = fsck::fsinfo(img, lay)?;
        let fv = FatView::new(img, lay);
        Some((c, n, fsck::free_count(&fv)))
    })
}

pub fn check_fsinfo(it: &Interp, vt: &VolTrack) -> Option<Failure> {
    if !vt.lay.fat32 {
        return None;
    }
    let (s0, n0, f0) = vt.mount?;
    let (s1, n1, f1) = fsinfo_now(it, &vt.lay)?;
    if s0 == 0xFFFF_FFFF {
        if s1 != 0xFFFF_FFFF {
            return Some(fail("C16", "unknown-count-became-known", format!("slot {}: free count was unknown at mount, now {}", vt.slot, s1)));
        }
    } else {
        // "changed by exactly the change in the number of free FAT entries since mount"; a stale
        // record can make the exact value unrepresentable, in which case the nearest storable
        // count (0, or the largest value that does not mean "unknown") is what can be stored
        let exp = (s0 as i64 + (f1 as i64 - f0 as i64)).clamp(0, 0xFFFF_FFFE);
        if s1 as i64 != exp {
            return Some(fail(
                "C16",
                "free-count-drift",
                format!("slot {}: stored free count {} -> {} but free FAT entries {} -> {} (expected {})", vt.slot, s0, s1, f0, f1, exp),
            ));
        }
    }
    // "the next-free hint is unknown or a cluster inside the volume" - whatever it was at mount
    let _ = (n0, vt.changed_since_mount);
    if !(n1 == 0xFFFF_FFFF || (n1 >= 2 && n1 < vt.lay.clusters + 2)) {
        return Some(fail("C16", "next-free-out-of-range", format!("slot {}: next-free hint {:#x} (at mount {:#x}) is neither unknown nor inside the volume ({} clusters)", vt.slot, n1, n0, vt.lay.clusters)));
    }
    None
}

/// C02 reader half: a model file as seen by the independent reader on the medium.
pub fn check_file_on_medium(it: &Interp, ctx: &Ctx, node: usize) -> Option<Failure> {
    check_files_on_medium(it, ctx, &[node])
}

/// One walk per volume, then every listed model node is compared with it.
pub fn check_files_on_medium(it: &Interp, ctx: &Ctx, nodes: &[usize]) -> Option<Failure> {
    for vt in &ctx.vols {
        let mine: Vec<usize> = nodes.iter().copied().filter(|n| it.nodes[*n].slot == vt.slot && !it.nodes[*n].tainted && it.is_alive_path(*n)).collect();
        if mine.is_empty() {
            continue;
        }
        let r = it.disk.with_img(|img| {
            let fv = FatView::new(img, &vt.lay);
            let w = fsck::walk(img, &fv, &[]);
            for node in &mine {
                if let Some(f) = compare_node_with_walk(it, vt, img, &w, *node) {
                    return Some(f);
                }
            }
            None
        });
        if r.is_some() {
            return r;
        }
    }
    None
}

fn compare_node_with_walk(it: &Interp, vt: &VolTrack, img: &Image, w: &fsck::Walk, node: usize) -> Option<Failure> {
    let n = &it.nodes[node];
    let path = it.path_of(node);
    {
        let Some(f) = fsck::find_path(&w.root, &path) else {
            return Some(fail("C02", "file-missing-on-medium", format!("{} not found by the independent reader", path)));
        };
        let slot = f.slot.as_ref().unwrap();
        if f.is_dir != n.is_dir {
            return Some(fail("C02", "directory-bit", format!("{}: directory attribute is {}", path, f.is_dir)));
        }
        if !n.is_dir {
            if f.size as usize != n.data.len() {
                return Some(fail("C02", "size-on-medium", format!("{}: size on medium {} but flushed length {}", path, f.size, n.data.len())));
            }
            if f.chain_end != fsck::ChainEnd::Eoc && f.first != 0 {
                return Some(fail("C02", "chain-on-medium", format!("{}: chain ends with {:?}", path, f.chain_end)));
            }
            let data = fsck::read_file(img, &vt.lay, f);
            if data != n.data {
                let p = data.iter().zip(n.data.iter()).position(|(a, b)| a != b).unwrap_or(data.len().min(n.data.len()));
                return Some(fail("C02", "content-on-medium", format!("{}: medium differs from flushed contents at byte {} (medium {} bytes, model {})", path, p, data.len(), n.data.len())));
            }
        } else {
            let l = f.listing.as_ref();
            let ok = l.map(|l| l.slots.len() >= 2 && l.slots[0].is_dot() && l.slots[1].is_dotdot()).unwrap_or(false);
            if !ok {
                return Some(fail("C02", "mkdir-dot-entries", format!("{}: new directory lacks '.'/'..'", path)));
            }
        }
        // after a write that failed part-way the archive bit is not specified (mtime None marks that)
        let amask = if n.mtime.is_none() { !0x20u8 } else { 0xFF };
        if !n.is_dir && (slot.raw[11] & amask) != (n.attr & amask) {
            return Some(fail("C02", "attributes-on-medium", format!("{}: attribute byte on medium {:#04x}, expected {:#04x} (attributes as found, plus archive once written)", path, slot.raw[11], n.attr)));
        }
        if let Some(cf) = n.cfields {
            // bytes 13..18: creation tenths, time, date ("a creation time that never changes")
            if slot.raw[13..18] != cf[1..6] {
                return Some(fail(
                    "C02",
                    "creation-time-changed",
                    format!("{}: creation field (tenths,time,date) is {:02x?} but was {:02x?}", path, &slot.raw[13..18], &cf[1..6]),
                ));
            }
        }
        if let Some((d, t)) = n.mtime {
            let got_t = u16::from_le_bytes([slot.raw[22], slot.raw[23]]);
            let got_d = u16::from_le_bytes([slot.raw[24], slot.raw[25]]);
            if !n.is_dir && (got_d, got_t) != (d, t) {
                return Some(fail("C02", "mtime", format!("{}: write time/date on medium {:#06x}/{:#06x}, expected {:#06x}/{:#06x}", path, got_t, got_d, t, d)));
            }
        }
        None
    }
}

/// C02: everything the history did not touch is unchanged (entry-for-entry, byte-for-byte).
pub fn check_untouched(it: &Interp, ctx: &Ctx) -> Option<Failure> {
    // 1. directory blocks of the initial tree, slot by slot
    for pv in &it.pvols {
        let lay = &pv.layout;
        let mut dir_blocks: Vec<u32> = Vec::new();
        if !lay.fat32 {
            let s = lay.root16_start();
            dir_blocks.extend(s..s + lay.root_sectors);
        }
        fn collect(p: &crate::mkfs::PNode, lay: &Layout, out: &mut Vec<u32>) {
            if p.is_dir {
                for c in &p.chain {
                    let b = lay.cluster_block(*c);
                    out.extend(b..b + lay.spc);
                }
                for k in &p.children {
                    collect(k, lay, out);
                }
            }
        }
        collect(&pv.root, lay, &mut dir_blocks);
        // slots owned by touched nodes
        let mut owned: std::collections::HashSet<(u32, u32)> = Default::default();
        fn owned_of(p: &crate::mkfs::PNode, it: &Interp, node: usize, out: &mut std::collections::HashSet<(u32, u32)>) {
            // model children were added in the same order as PNode children
            let kids: Vec<usize> = it.nodes[node].children.iter().copied().filter(|c| it.nodes[*c].raw0.is_some()).collect();
            for (k, c) in p.children.iter().zip(kids.iter()) {
                if it.nodes[*c].touched || it.nodes[*c].tainted {
                    out.insert(k.entry_loc);
                }
                owned_of(k, it, *c, out);
            }
        }
        if let Some(root) = it.roots[pv.slot] {
            owned_of(&pv.root, it, root, &mut owned);
        }
        let r = it.disk.with_img(|img| {
            for b in &dir_blocks {
                let old = ctx.initial.rd(*b);
                let new = img.rd(*b);
                if old == new {
                    continue;
                }
                for i in 0..16usize {
                    let (o, n) = (&old[i * 32..i * 32 + 32], &new[i * 32..i * 32 + 32]);
                    if o == n {
                        continue;
                    }
                    let was_free = o[0] == 0x00 || o[0] == 0xE5;
                    if was_free || owned.contains(&(*b, i as u32 * 32)) {
                        continue;
                    }
                    return Some((*b, i * 32, o.to_vec(), n.to_vec()));
                }
            }
            None
        });
        if let Some((b, off, o, n)) = r {
            return Some(fail("C02", "untouched-entry-changed", format!("directory slot at block {} offset {} was {:02x?} and is now {:02x?} although no operation touched it", b, off, o, n)));
        }
    }
    // 2. contents of untouched files
    let untouched: Vec<usize> = it
        .nodes
        .iter()
        .enumerate()
        .filter(|(id, n)| !(n.is_dir || n.touched || n.tainted || n.raw0.is_none() || !it.is_alive_path(*id)))
        .map(|(id, _)| id)
        .collect();
    if let Some(f) = check_files_on_medium(it, ctx, &untouched) {
        return Some(Failure { sig: f.sig.replace("C02/", "C02/untouched-"), detail: f.detail });
    }
    None
}

/// A refused call must not change the medium.
pub fn check_refusal_wrote(it: &Interp, info: &StepInfo, prop: &'static str) -> Option<Failure> {
    if !info.refused {
        return None;
    }
    let inner = it.disk.0.borrow();
    for rec in &inner.log[info.log_start..info.log_end] {
        if rec.old != rec.new {
            return Some(fail(prop, "refused-call-changed-medium", format!("{} was refused ({}) but block {} changed", info.kind, info.err.clone().unwrap_or_default(), rec.block)));
        }
    }
    None
}

pub fn geometry_class(case: &Case) -> Vec<String> {
    let mut v = Vec::new();
    for vs in case.disk.vols.iter().flatten() {
        let g = &vs.geom;
        v.push(format!("{}-spc{}-fats{}", if g.fat32 { "fat32" } else { "fat16" }, g.spc, g.num_fats));
    }
    v
}

/// Classes of the generated volume and tree, for the evidence (one count per case having the class).
pub fn tree_classes(case: &Case) -> Vec<String> {
    use crate::mkfs::Slot;
    let mut v: Vec<String> = Vec::new();
    fn walk(slots: &[Slot], depth: u32, f: &mut dyn FnMut(&Slot, u32)) {
        for s in slots {
            f(s, depth);
            if let Slot::Dir { children, .. } = s {
                walk(children, depth + 1, f);
            }
        }
    }
    for (slot, vs) in case.disk.vols.iter().enumerate() {
        let Some(vs) = vs else { continue };
        let g = &vs.geom;
        v.push(format!("vol:partition-slot-{}", slot));
        v.push(format!("vol:fsinfo-{}", match g.fsinfo { FsInfoKind::Correct => "correct", FsInfoKind::Unknown => "unknown", FsInfoKind::Stale { .. } => "stale" }));
        let eps = if g.fat32 { 128 } else { 256 };
        v.push(format!("vol:last-fat-sector-{}", match (g.clusters + 2) % eps { 0 => "exactly-full", 1 => "one-entry", _ => "partly-used" }));
        if g.fat_slack > 0 {
            v.push("vol:fat-has-slack-sectors".into());
        }
        if g.hi_nibbles {
            v.push("vol:fat32-high-nibbles-set".into());
        }
        if vs.stale {
            v.push("vol:stale-data-area".into());
        }
        if vs.usable.fragmented {
            v.push("tree:fragmented-chains".into());
        }
        v.push(format!("vol:free-clusters-{}", match (vs.usable.all, vs.usable.free_after) { (_, Some(0)) => "0", (_, Some(1..=8)) => "1-8", (_, Some(_)) => "9-99", (true, None) => "unrestricted", (false, None) => "usable-set-remainder" }));
        if !g.fat32 {
            v.push(format!("vol:fat16-root-free-slots-{}", match vs.root_pad_free { Some(0) => "0", Some(1) => "1", Some(_) => "2+", None => "many" }));
        }
        let (mut lfn, mut del, mut multi_dir, mut multi_file, mut depth_max, mut ro) = (false, false, vs.root_extra > 0, false, 0u32, false);
        let mut full_multi = vs.root_extra & 0x80 != 0 && vs.root_pad_free.is_some();
        let cb = g.spc as u32 * 512;
        walk(&vs.root, 0, &mut |s, d| {
            depth_max = depth_max.max(d);
            let pre = match s {
                Slot::File { pre, size, extra, attr, .. } => {
                    if *size > cb || *extra > 0 {
                        multi_file = true;
                    }
                    if attr & 1 != 0 {
                        ro = true;
                    }
                    pre
                }
                Slot::Dir { pre, extra, pad_free, .. } => {
                    if *extra > 0 {
                        multi_dir = true;
                    }
                    if *extra & 0x80 != 0 && pad_free.is_some() {
                        full_multi = true;
                    }
                    pre
                }
                Slot::Raw(r) => r,
            };
            for r in pre.iter() {
                if r[0] == 0xE5 {
                    del = true;
                } else if r[11] == 0x0F {
                    lfn = true;
                }
            }
        });
        for (flag, name) in [(lfn, "tree:has-lfn-run"), (del, "tree:has-deleted-slot"), (multi_dir, "tree:multi-cluster-directory"), (full_multi, "tree:filled-multi-cluster-directory"), (multi_file, "tree:multi-cluster-file"), (ro, "tree:has-read-only-file")] {
            if flag {
                v.push(name.into());
            }
        }
        v.push(format!("tree:depth-{}", depth_max));
    }
    v.sort();
    v.dedup();
    v
}

fn first_relevant<'a>(divs: &'a [Divergence], prop: &str) -> Option<&'a Divergence> {
    divs.iter().find(|d| {
        d.prop == prop
            || d.prop == "ANY"
            // for the handle property every unexpected handle/limit/lock error on a live handle counts
            || (prop == "C08" && (d.detail.contains("BadHandle") || d.detail.contains("LockError") || d.detail.contains("TooManyOpen") || d.detail.contains("VolumeStillInUse") || d.detail.contains("VolumeAlreadyOpen")))
    })
}

pub fn abbreviate(case: &Case) -> serde_json::Value {
    json!({
        "limits_cfg": case.cfg,
        "volumes": geometry_class(case),
        "clusters": case.disk.vols.iter().flatten().map(|v| v.geom.clusters).collect::<Vec<_>>(),
        "root_slots": case.disk.vols.iter().flatten().map(|v| v.root.len()).collect::<Vec<_>>(),
        "steps": case.steps.len(),
        "first_ops": case.steps.iter().take(14).map(|s| format!("{:?}", s.op)).collect::<Vec<_>>(),
    })
}

pub fn make_ctx<'a>(cfg: &'a FsxCfg, it: &Interp) -> Ctx<'a> {
    Ctx {
        cfg,
        initial: it.disk.snapshot(),
        vols: it
            .pvols
            .iter()
            .map(|p| VolTrack {
                slot: p.slot,
                // layout parsed independently from the image, not taken from the formatter
                lay: it.disk.with_img(|img| fsck::layout_of(img, p.slot)).expect("formatter produced unparsable volume"),
                mount: None,
                changed_since_mount: false,
            })
            .collect(),
        failures: vec![],
    }
}

/// Execute one case under the oracle of `cfg.prop`.
pub fn run_case(cfg: &FsxCfg, case: &Case, acc: &mut Acc, known: &[KnownFinding], verbose: bool) -> Result<(), Failure> {
    let prop = cfg.prop;
    let opts = Opts {
        track_space: matches!(prop, "C05" | "C04"),
        ..Opts::default()
    };
    let mut it = Interp::new(case, opts);
    it.tolerate = known.iter().filter(|k| k.status == "open" && k.property == prop).map(|k| k.signature.clone()).collect();
    let mut ctx = make_ctx(cfg, &it);
    let mut steps: Vec<Step> = ops::prologue();
    steps.extend(case.steps.iter().cloned());
    steps.push(Step { op: Op::CheckAll, surf: 0, tick: 1 });
    let mut result: Result<(), Failure> = Ok(());
    let mut nt_flags = NtFlags::default();
    'outer: for (i, st) in steps.iter().enumerate() {
        let info = it.step(i, st);
        if verbose {
            println!("{}", it.trace.last().cloned().unwrap_or_default());
            let inner = it.disk.0.borrow();
            let w: Vec<String> = inner.log[info.log_start..info.log_end].iter().map(|r| format!("{}{}", r.block, if r.old == r.new { "=" } else { "" })).collect();
            if !w.is_empty() {
                println!("      writes: {}", w.join(" "));
            }
        }
        // divergences
        if let Some(d) = first_relevant(&it.divs, prop) {
            result = Err(fail(prop, d.code, format!("step {}: {}", d.step, d.detail)));
            break 'outer;
        }
        if !it.divs.is_empty() {
            // the model and the crate disagree about something that is another property's
            // business; this property's own oracle still gets to look at the state the call left
            if !info.skipped {
                if let Some(f) = after_step(prop, &it, &ctx, &info) {
                    result = Err(f);
                    break 'outer;
                }
            }
            if verbose {
                println!("  out-of-scope divergence: {:?}", it.divs[0]);
            }
            if std::env::var("VERIF_DEBUG_DESYNC").is_ok() {
                eprintln!("DESYNC {:?}\n  {}", it.divs[0], it.trace.iter().rev().take(3).cloned().collect::<Vec<_>>().join("\n  "));
            }
            acc.desync += 1;
            acc.class(&format!("desync:{}/{}", it.divs[0].prop, it.divs[0].code));
            break 'outer;
        }
        if info.skipped {
            continue;
        }
        // bookkeeping for C16
        if info.kind == "OpenVolume" && info.ok {
            if let Some(vt) = ctx.vols.iter_mut().find(|v| Some(v.slot) == info.slot) {
                vt.mount = fsinfo_now(&it, &vt.lay).or(Some((0, 0, 0)));
                vt.changed_since_mount = false;
            }
        }
        if info.log_end > info.log_start {
            // the crate recomputes its next-free hint whenever it allocates or frees,
            // i.e. whenever it writes a FAT sector
            let inner = it.disk.0.borrow();
            for rec in &inner.log[info.log_start..info.log_end] {
                for vt in ctx.vols.iter_mut() {
                    let f0 = vt.lay.fat_start(0);
                    if rec.block >= f0 && rec.block < f0 + vt.lay.num_fats * vt.lay.fat_sectors && rec.old != rec.new {
                        vt.changed_since_mount = true;
                    }
                }
            }
        }
        nt_flags.observe(&it, &info);
        let f = after_step(prop, &it, &ctx, &info);
        if let Some(f) = f {
            result = Err(f);
            break 'outer;
        }
    }
    if result.is_ok() && it.divs.is_empty() {
        // end of case: close everything, then the final oracles
        let mut info = StepInfo { kind: "CloseAll", idx: steps.len(), log_start: it.disk.log_len(), ..Default::default() };
        it.step_no = steps.len();
        it.close_all(&mut info);
        info.log_end = it.disk.log_len();
        if let Some(d) = first_relevant(&it.divs, prop) {
            result = Err(fail(prop, d.code, format!("final close: {}", d.detail)));
        } else if it.divs.is_empty() {
            if let Some(f) = final_checks(prop, &it, &ctx) {
                result = Err(f);
            }
        }
    }
    // C16 differential half: the same history on the same image with a correct
    // information sector must give exactly the same API results.
    if prop == "C16" && result.is_ok() && it.divs.is_empty() {
        let stale = case.disk.vols.iter().flatten().any(|v| v.geom.fat32 && v.geom.fsinfo != FsInfoKind::Correct);
        if stale {
            let mut c2 = case.clone();
            for v in c2.disk.vols.iter_mut().flatten() {
                v.geom.fsinfo = FsInfoKind::Correct;
            }
            let mut it2 = Interp::new(&c2, Opts::default());
            for (i, st) in steps.iter().enumerate() {
                let _ = it2.step(i, st);
                if !it2.divs.is_empty() {
                    break;
                }
            }
            let n = it.trace.len().min(it2.trace.len());
            for k in 0..n {
                if it.trace[k] != it2.trace[k] {
                    result = Err(fail("C16", "fsinfo-changes-results", format!("with the generated information sector: {} / with a correct one: {}", it.trace[k], it2.trace[k])));
                    break;
                }
            }
            acc.class("fsinfo-differential-run");
            nt_flags.fsinfo_checked = true;
        }
    }
    for k in &it.known_hits {
        acc.known(k);
    }
    acc.ops += it.stats.ops;
    acc.skipped_ops += it.stats.skipped;
    if let Err(f) = &result {
        if is_open_known(known, prop, &f.sig) {
            acc.known(&f.sig);
            return Ok(());
        }
        if verbose {
            println!("FAIL {}: {}", f.sig, f.detail);
        }
        return result;
    }
    // statistics
    for g in geometry_class(case) {
        acc.class(&format!("geom:{}", g));
    }
    let s = &it.stats;
    let flags: [(&str, bool); 9] = [
        ("hist:backwards-seek", s.backwards_seek),
        ("hist:mid-block-write", s.midblock_write),
        ("hist:cross-cluster-write", s.cross_cluster_write),
        ("hist:short-write-at-block-start", s.short_write_at_block_start),
        ("hist:extend-after-seek-to-end", s.extend_after_seek_end),
        ("hist:truncate", s.truncates > 0),
        ("hist:delete-then-create", s.delete_then_create),
        ("hist:remount", s.remounts > 0),
        ("hist:alternating-files", s.alternating_files),
    ];
    for (k, v) in flags {
        if v {
            acc.class(k);
        }
    }
    for c in &nt_flags.cells {
        acc.class(&format!("cell:{}", c));
    }
    for c in tree_classes(case) {
        acc.class(&c);
    }
    for (k, name) in ["raw", "raii", "embedded-io"].iter().enumerate() {
        if case.steps.iter().any(|st| st.surf as usize % 3 == k) {
            acc.class(&format!("surface:{}", name));
        }
    }
    acc.class(&format!("files-open-max:{}", s.max_files_open.min(4)));
    acc.class(&format!("volumes-open-max:{}", s.max_vols_open.min(2)));
    for (k, v) in &s.errors_by_variant {
        acc.class_n(&format!("err:{}", k), *v);
    }
    if s.space_errors > 0 {
        acc.class("hist:space-error");
    }
    let fresh = case.steps.iter().filter(|st| matches!(&st.op, Op::Open { name: NameSel::Fresh(_), .. })).count();
    if fresh > 0 {
        acc.class("hist:create-burst");
        let made = it.nodes.iter().filter(|n| n.alive && n.name.starts_with(b"F") && n.name[8..11] == *b"TMP").count();
        if made >= 17 {
            acc.class("hist:create-burst-17-or-more-created");
        }
    }
    let nt = nontrivial(prop, &it, &nt_flags);
    if nt {
        let kinds: Vec<&str> = case.steps.iter().map(|s| s.op.kind()).collect();
        acc.shape(&(geometry_class(case), kinds, nt_flags.hashable()));
        if acc.samples.len() < 3 {
            acc.sample(abbreviate(case));
        }
    }
    Ok(())
}

#[derive(Default, Debug)]
pub struct NtFlags {
    pub flush_after_growth: bool,
    pub alloc_after_free: bool,
    pub non_notfound_error: bool,
    pub reached_full: bool,
    pub freed_multi: bool,
    pub fsinfo_checked: bool,
    pub refused_calls: u32,
    pub cells: std::collections::BTreeSet<String>,
    freed_any: bool,
    pub partial_block_write: bool,
    pub low_space_alloc: bool,
    pub special_calls: u32,
    pub limit_reached: bool,
}

impl NtFlags {
    fn hashable(&self) -> (bool, bool, bool, bool, bool, Vec<String>) {
        (self.flush_after_growth, self.alloc_after_free, self.non_notfound_error, self.reached_full, self.freed_multi, self.cells.iter().cloned().collect())
    }
    fn observe(&mut self, it: &Interp, info: &StepInfo) {
        if info.flushed_ok {
            if let (Some(pre), Some(n)) = (&info.file_pre, info.file_node) {
                if pre.dirty && it.nodes[n].data.len() > 0 {
                    self.flush_after_growth = true;
                }
            }
        }
        if info.deleted || info.truncated {
            self.freed_any = true;
            if let Some(n) = info.file_node {
                let cb = it.cluster_bytes(it.nodes[n].slot) as usize;
                let _ = cb;
            }
            self.freed_multi = true;
        }
        if self.freed_any && (info.kind == "Write" || info.mkdir || info.created) && info.ok {
            self.alloc_after_free = true;
        }
        if let Some(e) = &info.err {
            if matches!(info.kind, "Open" | "Write" | "Mkdir" | "Delete") && !e.starts_with("NotFound") {
                self.non_notfound_error = true;
            }
        }
        if info.space_error {
            self.reached_full = true;
        }
        if info.refused {
            self.refused_calls += 1;
        }
        if info.kind.starts_with("Stale") || info.kind == "Reenter" {
            self.special_calls += 1;
            self.cells.insert(info.kind.to_string());
        }
        if let Some(e) = &info.err {
            if e.starts_with("TooManyOpen") {
                self.limit_reached = true;
            }
        }
        if let (Some(m), Some(sc)) = (info.mode, info.state_class) {
            self.cells.insert(format!("open:mode{}:{}", m, sc));
        }
        if info.kind == "Delete" {
            if let Some(sc) = info.state_class {
                self.cells.insert(format!("delete:{}", sc));
            }
        }
        if let Some((off, _n, acc)) = info.write {
            if acc > 0 && (off % 512 != 0 || acc % 512 != 0) {
                self.partial_block_write = true;
            }
        }
        if let Some(f) = info.free_before {
            if f <= 2 && info.log_end > info.log_start {
                self.low_space_alloc = true;
            }
        }
    }
}

fn nontrivial(prop: &str, it: &Interp, f: &NtFlags) -> bool {
    let s = &it.stats;
    match prop {
        "C01" => ((s.midblock_write || s.cross_cluster_write) && s.read_after_write_overlap) || s.backwards_seek || s.alternating_files,
        "C02" => f.flush_after_growth,
        "C03" => f.alloc_after_free || f.non_notfound_error || f.reached_full,
        "C04" => f.partial_block_write || f.low_space_alloc || it.pvols.len() > 1,
        "C05" => f.alloc_after_free || f.reached_full,
        "C16" => f.fsinfo_checked || (f.alloc_after_free),
        "C07" => f.refused_calls > 0,
        "C08" => f.special_calls > 0 || f.limit_reached,
        _ => true,
    }
}

fn after_step(prop: &str, it: &Interp, ctx: &Ctx, info: &StepInfo) -> Option<Failure> {
    match prop {
        "C01" => None,
        "C02" => {
            let quiescent = info.flushed_ok || info.deleted || info.mkdir || info.created || info.truncated;
            if !quiescent {
                return None;
            }
            if info.flushed_ok || info.mkdir {
                if let Some(n) = info.file_node {
                    if let Some(f) = check_file_on_medium(it, ctx, n) {
                        return Some(f);
                    }
                }
            }
            // flushed files that are closed now must also be visible to a fresh mount
            if info.flushed_ok && info.closed_file && it.files.is_empty() {
                let d = interp::verify_via_fresh_mount(it, "C02");
                if let Some(d) = d.first() {
                    return Some(fail("C02", d.code, d.detail.clone()));
                }
            }
            check_untouched(it, ctx)
        }
        "C03" => check_structure(it, ctx, fsck::Mode::Live),
        "C04" => crate::engines::c04::check_call(it, ctx, info),
        "C05" => {
            if let Some(f) = crate::engines::c05::check_space_error(it, ctx, info) {
                return Some(f);
            }
            if it.files.is_empty() && info.log_end > info.log_start {
                check_accounting(it, ctx)
            } else {
                None
            }
        }
        "C16" => {
            if let Some(f) = check_fat_copies(it, ctx) {
                return Some(f);
            }
            // "after a flush or volume close": every successful flush / close, dirty handle or not
            let vol_closed = info.kind == "CloseVolume" && info.ok;
            if info.flushed_ok || vol_closed {
                if let Some(vt) = ctx.vols.iter().find(|v| Some(v.slot) == info.slot) {
                    return check_fsinfo(it, vt);
                }
            }
            None
        }
        "C07" | "C08" => check_refusal_wrote(it, info, if prop == "C07" { "C07" } else { "C08" }),
        _ => None,
    }
}

fn final_checks(prop: &str, it: &Interp, ctx: &Ctx) -> Option<Failure> {
    match prop {
        "C01" => {
            let d = interp::verify_via_fresh_mount(it, "C01");
            d.first().map(|d| fail("C01", d.code, format!("fresh handles after the history: {}", d.detail)))
        }
        "C02" => {
            let touched: Vec<usize> = it.alive_files().into_iter().filter(|id| it.nodes[*id].touched).collect();
            if let Some(f) = check_files_on_medium(it, ctx, &touched) {
                return Some(f);
            }
            if let Some(f) = check_untouched(it, ctx) {
                return Some(f);
            }
            let d = interp::verify_via_fresh_mount(it, "C02");
            d.first().map(|d| fail("C02", d.code, d.detail.clone()))
        }
        "C03" => check_structure(it, ctx, fsck::Mode::Live),
        "C05" => check_accounting(it, ctx),
        "C16" => {
            if let Some(f) = check_fat_copies(it, ctx) {
                return Some(f);
            }
            for vt in &ctx.vols {
                if vt.mount.is_some() {
                    if let Some(f) = check_fsinfo(it, vt) {
                        return Some(f);
                    }
                }
            }
            None
        }
        _ => None,
    }
}

pub fn quick_cases(prop: &str, tier: Tier) -> u64 {
    match prop {
        "C01" => tier.pick(30_000, 1_500_000),
        "C02" => tier.pick(12_000, 500_000),
        "C03" => tier.pick(20_000, 800_000),
        "C04" => tier.pick(15_000, 600_000),
        "C05" => tier.pick(8_000, 300_000),
        "C16" => tier.pick(15_000, 600_000),
        "C07" => tier.pick(20_000, 800_000),
        "C08" => tier.pick(20_000, 800_000),
        _ => tier.pick(2000, 50_000),
    }
}

pub fn rule_for(prop: &str) -> &'static str {
    match prop {
        "C01" => "proptest-generated cases (disk geometry x pre-populated tree x 1-60 ops over raw/RAII/embedded-io surfaces); non-trivial = contains a mid-block or cross-cluster write later overlapped by a read, or a backwards seek, or two open files written alternately; distinct = hash of (geometry classes, op-kind sequence, flags)",
        "C02" => "generated histories with create/write/truncate/delete/mkdir; oracle at every flush/close/delete/mkdir and at the end (independent reader + fresh VolumeManager + untouched-entry diff); non-trivial = a dirty file with non-zero length was flushed/closed; distinct by (geometry, op-kind sequence, flags)",
        "C03" => "generated histories on tight volumes (0-8 free clusters, padded directories); structural check after every call incl. failing ones; non-trivial = allocation after a free, or an error other than NotFound, or a full volume/root reached; distinct by (geometry, op-kind sequence, flags)",
        "C04" => "generated histories; every logged device write of every call classified by region/ownership against the pre-call image; second stage: the same classifier on histories in which one device call fails (reads scribbled; up to 24 / 160 fault positions per history): full rule set while the medium is consistent (before the fault and after a fault in a read-only call), reduced set for the faulted call, region rules only after a mutating call was cut short; non-trivial = partial-block write, a writing call with <= 2 free clusters, two FAT volumes on the device, or (fault stage) a writing call judged by the full rule set after a read fault; distinct by (geometry, op-kind sequence, flags[, fault position])",
        "C05" => "generated create/extend/truncate/delete/mkdir histories on tight volumes; FAT in-use set vs reachable chains whenever no file is open; out-of-space errors checked against a FAT scan taken before the call; second stage: fill / release / refill cycles (1-300 free clusters, 1-2 files written alternately until every write reports out-of-space, released by delete or truncate, 2-5 cycles): bytes accepted == (free + held clusters) x cluster size in every cycle, no cluster free at out-of-space, everything reads back, everything returned on release; non-trivial = allocation after a free or a space error reached, or (fill stage) >= 2 cycles reached full; distinct by (geometry, op-kind sequence, flags) / (geometry, free count, bytes per cycle, release kinds)",
        "C16" => "generated FAT32 histories with correct/unknown/stale FSInfo; FAT copies compared after every call, FSInfo delta vs FAT-scan delta after every dirty flush / volume close; non-trivial = FSInfo checked after an allocation following a free; distinct by (geometry, op-kind sequence, flags)",
        "C06" => "see run_c06",
        "C08" => "generated open/close histories over 12 (dirs,files,volumes) limit configurations with id offsets near u32::MAX; every method taking a handle is called with a closed handle (all methods per Stale op), and every public Result-returning method is called re-entrantly from iterate_dir / iterate_dir_lfn callbacks (all 23 per Reenter op); non-trivial = a stale or re-entrant op ran or a limit was reached; distinct by (geometry, op-kind sequence, flags)",
        "C07" => "generated histories biased to opens/deletes/mkdirs with valid and invalid names; decision table from the Mode/Error docs; refused calls must leave the medium unchanged; non-trivial = at least one refused call; distinct by (geometry, op-kind sequence, set of (mode,state) cells hit)",
        _ => "generated histories",
    }
}
