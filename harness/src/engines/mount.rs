//! C15: mounting. Valid layouts from the independent formatter must be located
//! exactly; arbitrary partition-table / boot-sector / FSInfo contents must give
//! Ok or Err, never a panic (overflow and division checks are on in this build).

use crate::api::{self, Surf};
use crate::fsck::{self, FatView};
use crate::gen::{self, VolBias};
use crate::interp::{self, Case, Interp, Opts};
use crate::mkfs::{self, DiskSpec, FsInfoKind, Usable, VolGeom, VolSpec};
use crate::runner::{Acc, Failure};
use crate::simdisk::{Image, Img, SimClock, SimDisk};
use embedded_sdmmc::Mode;
use proptest::prelude::*;
use serde::{Deserialize, Serialize};
use serde_json::json;
use std::panic::{catch_unwind, AssertUnwindSafe};

#[derive(Clone, Debug, Serialize, Deserialize)]
pub enum MountCase {
    Valid { disk: DiskSpec, write_seed: u32, write_len: u32 },
    /// base image (0 = FAT16, 1 = FAT32) with fields overwritten: (sector 0=MBR 1=boot 2=FSInfo, offset, width, value)
    Fields { base: u8, edits: Vec<(u8, u16, u8, u32)> },
    /// base image with single bytes changed
    Mutate { base: u8, muts: Vec<(u8, u16, u8)> },
    /// FAT32 base volume placed `delta` blocks below the 2^32-block limit of a huge (sparse) device
    HighLba {
        delta: u32,
        base: u8,
        edits: Vec<(u8, u16, u8, u32)>,
        /// length field of the partition entry (None = the true length)
        #[serde(default)]
        mbr_len: Option<u32>,
    },
    /// fully random sectors; `sigs` forces the 0xAA55 signatures and a plausible partition entry
    Random { mbr: Vec<u8>, boot: Vec<u8>, info: Vec<u8>, sigs: bool },
    /// a boot sector that passes validation as FAT32 although the volume has fewer than 65536
    /// blocks (one block per cluster, FATs far too small), so that the whole volume fits into the
    /// last blocks of the 32-bit block range: every "start + field" sum is at the overflow edge
    TinyTop { back: u8, reserved: u8, num_fats: u8, fat_size: u8, slack: u8, fs_info: u16, root_cluster: u32, edits: Vec<(u8, u16, u8, u32)> },
}

fn fail(code: &str, detail: String) -> Failure {
    Failure { sig: format!("C15/{}", code), detail }
}

fn base_spec(fat32: bool) -> DiskSpec {
    let geom = VolGeom {
        fat32,
        spc: 1,
        reserved: if fat32 { 32 } else { 1 },
        num_fats: 2,
        root_entries: 32,
        clusters: if fat32 { 65525 } else { 4085 },
        fat_slack: 0,
        tail_slack: 0,
        total16: true,
        fsinfo_sector: 1,
        root_late: false,
        fsinfo: FsInfoKind::Correct,
        part_type: if fat32 { 0x0C } else { 0x06 },
        gap_before: 7,
        hi_nibbles: false,
        label: true,
    };
    let usable = Usable { all: true, low: 0, mid: 0, high: 0, free_after: None, frag_seed: 1, fragmented: false };
    let root = vec![mkfs::Slot::File { name: *b"HELLO   TXT", attr: 0x20, size: 700, seed: 5, extra: 0, times: Default::default(), pre: vec![] }];
    DiskSpec { vols: vec![Some(VolSpec { geom, usable, root, root_pad_free: None, root_extra: 0, stale: false }), None, None, None], guard: 16 }
}

thread_local! {
    static BASES: std::cell::RefCell<Vec<(Image, u32, u32)>> = std::cell::RefCell::new(Vec::new());
}

fn base_image(which: u8) -> (Image, u32, u32) {
    BASES.with(|b| {
        let mut b = b.borrow_mut();
        if b.is_empty() {
            for f in [false, true] {
                let (img, pv) = mkfs::mkfs(&base_spec(f));
                let l = &pv[0].layout;
                b.push((img, l.part_start, l.part_start + l.fsinfo_sector.max(1)));
            }
        }
        b[(which % 2) as usize].clone()
    })
}

/// open_raw_volume on every index 0..=4; Ok or Err are both fine, a panic is not.
fn open_all(img: Image) -> Result<u32, Failure> {
    let disk = SimDisk::new(img);
    disk.0.borrow_mut().log_enabled = false;
    let mut opened = 0;
    for idx in 0..5usize {
        let api = api::make_mgr(11, disk.clone(), SimClock::new(1), 10);
        let r = catch_unwind(AssertUnwindSafe(|| api.open_volume(idx, if idx % 2 == 0 { Surf::Raw } else { Surf::Raii })));
        match r {
            Ok(Ok(v)) => {
                opened += 1;
                // closing must not panic either
                let r2 = catch_unwind(AssertUnwindSafe(|| api.close_volume(v, Surf::Raw)));
                if let Err(p) = r2 {
                    return Err(fail("close-volume-panic", format!("close_volume after opening VolumeIdx({}) panicked: {}", idx, interp::panic_msg(&p).0)));
                }
            }
            Ok(Err(_)) => {}
            Err(p) => {
                let (m, hang) = interp::panic_msg(&p);
                return Err(fail(if hang { "mount-hang" } else { "mount-panic" }, format!("open_raw_volume(VolumeIdx({})) panicked: {}", idx, m)));
            }
        }
    }
    Ok(opened)
}

/// like open_all, and additionally lists the root directory of whatever mounts
fn open_all_sized(img: Image) -> Result<u32, Failure> {
    open_all(img)
}

fn put(img: &mut Image, block: u32, off: usize, width: u8, value: u32) {
    let mut b = img.rd(block);
    for k in 0..(width as usize).min(4) {
        if off + k < 512 {
            b[off + k] = (value >> (8 * k)) as u8;
        }
    }
    img.wr(block, &b);
}

pub fn run_case(c: &MountCase, acc: &mut Acc, verbose: bool) -> Result<(), Failure> {
    match c {
        MountCase::Valid { disk, write_seed, write_len } => {
            let case = Case { cfg: 11, id_offset: 1, clock0: 5, disk: disk.clone(), steps: vec![] };
            let it = Interp::new(&case, Opts::default());
            // 1. everything the formatter placed is found and read back through the crate
            let d = interp::verify_via_fresh_mount(&it, "C15");
            if let Some(d) = d.first() {
                let code: &'static str = match d.code {
                    "remount-open-volume" => "valid-volume-rejected",
                    "remount-panic" => "mount-panic",
                    _ => "formatter-file-not-read-back",
                };
                return Err(fail(code, d.detail.clone()));
            }
            // 2. a file written through the crate is found where the specification puts it
            for pv in &it.pvols {
                let api = api::make_mgr(11, it.disk.clone(), SimClock::new(9), 50);
                let r = catch_unwind(AssertUnwindSafe(|| -> Result<Option<Vec<u8>>, String> {
                    let v = api.open_volume(pv.slot, Surf::Raw).map_err(|e| format!("open_raw_volume: {:?}", e))?;
                    let d = api.open_root_dir(v, Surf::Raw).map_err(|e| format!("{:?}", e))?;
                    let f = match api.open_file(d, "C15NEW.TMP", Mode::ReadWriteCreateOrTruncate, Surf::Raw) {
                        Ok(f) => f,
                        Err(e) => {
                            let k = interp::ek(&e);
                            if k == "NotEnoughSpace" || k == "DiskFull" {
                                return Ok(None);
                            }
                            return Err(format!("create: {:?}", e));
                        }
                    };
                    let len = (*write_len % (5 * pv.layout.cluster_bytes() + 1)).min(96 * 1024);
                    let data = mkfs::content(*write_seed, len);
                    match api.write(f, &data, Surf::Raw) {
                        Ok(_) => {}
                        Err(e) => {
                            let k = interp::ek(&e);
                            let _ = api.close_file(f, Surf::Raw, false);
                            if k == "NotEnoughSpace" || k == "DiskFull" {
                                return Ok(None);
                            }
                            return Err(format!("write: {:?}", e));
                        }
                    }
                    api.close_file(f, Surf::Raw, false).map_err(|e| format!("close: {:?}", e))?;
                    let _ = api.close_dir(d, Surf::Raw);
                    api.close_volume(v, Surf::Raw).map_err(|e| format!("close_volume: {:?}", e))?;
                    Ok(Some(data))
                }));
                let data = match r {
                    Err(p) => return Err(fail("mount-panic", format!("writing on a valid volume panicked: {}", interp::panic_msg(&p).0))),
                    Ok(Err(e)) => return Err(fail("valid-volume-unusable", e)),
                    Ok(Ok(None)) => continue,
                    Ok(Ok(Some(d))) => d,
                };
                let lay = fsck::layout_of(&it.disk.snapshot(), pv.slot).map_err(|e| fail("boot-sector-destroyed", e))?;
                let bad = it.disk.with_img(|img| {
                    let fv = FatView::new(img, &lay);
                    let w = fsck::walk(img, &fv, &[]);
                    let v = fsck::check_tree(&w, &lay, fsck::Mode::Live);
                    if let Some(x) = v.first() {
                        return Some(format!("structure after write: {} {}", x.code, x.detail));
                    }
                    match fsck::find_path(&w.root, "/C15NEW.TMP") {
                        None => Some("the independent reader does not find the file the crate created in the root directory".to_string()),
                        Some(n) => {
                            if fsck::read_file(img, &lay, n) != data {
                                Some("the independent reader finds different contents than were written (data area / FAT located wrongly)".to_string())
                            } else {
                                None
                            }
                        }
                    }
                });
                if let Some(b) = bad {
                    return Err(fail("layout-located-wrongly", format!("slot {} ({:?}): {}", pv.slot, lay, b)));
                }
                // the formatter's other files are still intact (nothing was overwritten)
            }
            let d = interp::verify_via_fresh_mount(&it, "C15");
            // the model does not know C15NEW.TMP; only the pre-existing files are compared
            if let Some(d) = d.first() {
                return Err(fail("formatter-file-damaged-by-write", d.detail.clone()));
            }
            for vs in disk.vols.iter().flatten() {
                let g = &vs.geom;
                acc.class(&format!("valid:{}-spc{}-fats{}", if g.fat32 { "fat32" } else { "fat16" }, g.spc, g.num_fats));
                if [4085, 4086, 65524, 65525, 65526].contains(&g.clusters) {
                    acc.class(&format!("valid:clusters={}", g.clusters));
                }
                acc.class(&format!("valid:part-type-{:#04x}", g.part_type));
                if g.total16 {
                    acc.class("valid:total16-requested");
                }
            }
            for (i, v) in disk.vols.iter().enumerate() {
                if v.is_some() {
                    acc.class(&format!("valid:slot{}", i));
                }
            }
            let shape: Vec<(bool, u8, u8, u16, u32, u8, u16)> = disk.vols.iter().flatten().map(|v| (v.geom.fat32, v.geom.spc, v.geom.num_fats, v.geom.reserved, v.geom.clusters, v.geom.part_type, v.geom.gap_before)).collect();
            acc.shape(&("valid", shape));
            if acc.samples.len() < 2 {
                acc.sample(json!({"kind": "valid", "volumes": disk.vols.iter().flatten().map(|v| json!({"fat32": v.geom.fat32, "spc": v.geom.spc, "fats": v.geom.num_fats, "reserved": v.geom.reserved, "clusters": v.geom.clusters, "root_entries": v.geom.root_entries, "slot_type": v.geom.part_type})).collect::<Vec<_>>() }));
            }
            Ok(())
        }
        MountCase::Fields { base, edits } => {
            let (mut img, boot, info) = base_image(*base);
            for (sec, off, width, value) in edits {
                let block = match sec % 3 {
                    0 => 0,
                    1 => boot,
                    _ => info,
                };
                put(&mut img, block, *off as usize % 512, *width, *value);
            }
            let opened = open_all(img)?;
            acc.class(if opened > 0 { "invalid:fields:still-mounts" } else { "invalid:fields:rejected" });
            acc.shape(&("fields", edits.iter().map(|e| (e.0 % 3, e.1, e.3)).collect::<Vec<_>>(), base % 2));
            if acc.samples.len() < 4 && verbose {
                println!("fields {:?} -> opened {}", edits, opened);
            }
            Ok(())
        }
        MountCase::HighLba { delta, base, edits, mbr_len } => {
            let (src, boot, info) = base_image(*base);
            let mut img = Image::new(u32::MAX);
            let start = u32::MAX - (*delta % 70_000);
            let mut m = src.rd(0);
            m[454..458].copy_from_slice(&start.to_le_bytes());
            if let Some(l) = mbr_len {
                m[458..462].copy_from_slice(&l.to_le_bytes());
            }
            img.wr(0, &m);
            // copy boot sector, FSInfo and the first FAT/root sectors to the new place (wrapping is the point)
            for k in 0..64u32 {
                if let Some(dst) = start.checked_add(k) {
                    img.wr(dst, &src.rd(boot + k));
                }
            }
            let _ = info;
            for (sec, off, width, value) in edits {
                match sec % 3 {
                    1 => put(&mut img, start, *off as usize % 512, *width, *value),
                    // partition length / type / status in the MBR (never the start LBA: that is the point here)
                    0 if *off != 454 => put(&mut img, 0, *off as usize % 512, *width, *value),
                    _ => {}
                }
            }
            let opened = open_all_sized(img)?;
            acc.class(if opened > 0 { "invalid:high-lba:still-mounts" } else { "invalid:high-lba:rejected" });
            acc.shape(&("highlba", delta % 70_000, base % 2, edits.len()));
            Ok(())
        }
        MountCase::TinyTop { back, reserved, num_fats, fat_size, slack, fs_info, root_cluster, edits } => {
            let (src, boot, info) = base_image(1);
            let reserved = (*reserved % 4 + 1) as u32;
            let nf = (*num_fats % 2 + 1) as u32;
            let fat = (*fat_size % 3 + 1) as u32;
            let slack = (*slack as u32) % (10u32.saturating_sub(reserved + nf * fat) + 1);
            let total: u32 = 65_535 - slack;
            let start: u32 = (u32::MAX - total + 1) - (*back as u32 % 4).min(u32::MAX - total + 1 - 1);
            let mut img = Image::new(u32::MAX);
            let mut m = src.rd(0);
            m[454..458].copy_from_slice(&start.to_le_bytes());
            m[458..462].copy_from_slice(&total.to_le_bytes());
            img.wr(0, &m);
            let mut b = src.rd(boot);
            b[11..13].copy_from_slice(&512u16.to_le_bytes());
            b[13] = 1;
            b[14..16].copy_from_slice(&(reserved as u16).to_le_bytes());
            b[16] = nf as u8;
            b[17..19].copy_from_slice(&0u16.to_le_bytes());
            b[19..21].copy_from_slice(&0u16.to_le_bytes());
            b[22..24].copy_from_slice(&0u16.to_le_bytes());
            b[32..36].copy_from_slice(&total.to_le_bytes());
            b[36..40].copy_from_slice(&fat.to_le_bytes());
            b[44..48].copy_from_slice(&root_cluster.to_le_bytes());
            b[48..50].copy_from_slice(&fs_info.to_le_bytes());
            img.wr(start, &b);
            // a well-formed information sector wherever the boot sector points (if that is a block)
            if let Some(dst) = start.checked_add(*fs_info as u32) {
                if dst != start {
                    img.wr(dst, &src.rd(info));
                }
            }
            for (sec, off, width, value) in edits {
                if sec % 3 == 1 && !matches!(*off, 11 | 13 | 14 | 16 | 17 | 19 | 22 | 32 | 36) {
                    put(&mut img, start, *off as usize % 512, *width, *value);
                }
            }
            let opened = open_all_sized(img)?;
            acc.class(if opened > 0 { "invalid:tiny-top:mounts" } else { "invalid:tiny-top:rejected" });
            acc.shape(&("tinytop", reserved, nf, fat, slack, *fs_info, *root_cluster));
            Ok(())
        }
        MountCase::Mutate { base, muts } => {
            let (mut img, boot, info) = base_image(*base);
            for (sec, off, val) in muts {
                let block = match sec % 3 {
                    0 => 0,
                    1 => boot,
                    _ => info,
                };
                put(&mut img, block, *off as usize % 512, 1, *val as u32);
            }
            let opened = open_all(img)?;
            acc.class(if opened > 0 { "invalid:mutated:still-mounts" } else { "invalid:mutated:rejected" });
            acc.shape(&("mut", muts.clone(), base % 2));
            Ok(())
        }
        MountCase::Random { mbr, boot, info, sigs } => {
            let mut img = Image::new(4096);
            let mut m = [0u8; 512];
            let mut b = [0u8; 512];
            let mut f = [0u8; 512];
            for i in 0..512 {
                m[i] = *mbr.get(i).unwrap_or(&0);
                b[i] = *boot.get(i).unwrap_or(&0);
                f[i] = *info.get(i).unwrap_or(&0);
            }
            let mut boot_at = u32::from_le_bytes([m[454], m[455], m[456], m[457]]);
            if *sigs {
                m[510] = 0x55;
                m[511] = 0xAA;
                b[510] = 0x55;
                b[511] = 0xAA;
                for e in 0..4 {
                    let o = 446 + 16 * e;
                    m[o] &= 0x80;
                    m[o + 4] = [0x04, 0x06, 0x0E, 0x0B, 0x0C][(m[o + 4] % 5) as usize];
                    // keep the partition start inside the device so that the boot sector is reached
                    let start = 1 + (u32::from_le_bytes([m[o + 8], m[o + 9], m[o + 10], m[o + 11]]) % 64);
                    m[o + 8..o + 12].copy_from_slice(&start.to_le_bytes());
                    if e == 0 {
                        boot_at = start;
                    }
                }
                f[0..4].copy_from_slice(&0x4161_5252u32.to_le_bytes());
                f[484..488].copy_from_slice(&0x6141_7272u32.to_le_bytes());
                f[508..512].copy_from_slice(&0xAA55_0000u32.to_le_bytes());
            }
            img.wr(0, &m);
            // the same boot sector behind every plausible partition start
            for e in 0..4 {
                let o = 446 + 16 * e;
                let start = u32::from_le_bytes([m[o + 8], m[o + 9], m[o + 10], m[o + 11]]);
                if start > 0 && start < 4000 {
                    img.wr(start, &b);
                    let fi = u16::from_le_bytes([b[48], b[49]]) as u32;
                    if start + fi < 4096 && fi > 0 {
                        img.wr(start + fi, &f);
                    }
                }
            }
            let _ = boot_at;
            let opened = open_all(img)?;
            acc.class(if *sigs { "invalid:random-with-signatures" } else { "invalid:random" });
            if opened > 0 {
                acc.class("invalid:random:still-mounts");
            }
            if *sigs {
                acc.shape(&("rand", &m[440..512].to_vec(), &b[..64].to_vec()));
            }
            Ok(())
        }
    }
}

/// (sector, offset, width) of every field that matters to mounting.
pub const FIELDS: &[(u8, u16, u8, &str)] = &[
    (0, 446, 1, "part0.status"),
    (0, 450, 1, "part0.type"),
    (0, 454, 4, "part0.lba_start"),
    (0, 458, 4, "part0.num_blocks"),
    (0, 510, 2, "mbr.signature"),
    (1, 11, 2, "bytes_per_sector"),
    (1, 13, 1, "sectors_per_cluster"),
    (1, 14, 2, "reserved_sectors"),
    (1, 16, 1, "num_fats"),
    (1, 17, 2, "root_entries"),
    (1, 19, 2, "total_sectors_16"),
    (1, 22, 2, "fat_size_16"),
    (1, 32, 4, "total_sectors_32"),
    (1, 36, 4, "fat_size_32"),
    (1, 42, 2, "fs_version"),
    (1, 44, 4, "root_cluster"),
    (1, 48, 2, "fs_info_sector"),
    (1, 510, 2, "boot.signature"),
    (2, 0, 4, "fsinfo.lead_sig"),
    (2, 484, 4, "fsinfo.struct_sig"),
    (2, 488, 4, "fsinfo.free_count"),
    (2, 492, 4, "fsinfo.next_free"),
    (2, 508, 4, "fsinfo.trail_sig"),
];

fn boundary_value(width: u8) -> BoxedStrategy<u32> {
    let max: u32 = match width {
        1 => 0xFF,
        2 => 0xFFFF,
        _ => 0xFFFF_FFFF,
    };
    prop_oneof![
        3 => Just(0u32), 2 => Just(1u32), 3 => Just(max), 2 => Just(max - 1), 1 => Just(2u32), 1 => Just(max / 2), 1 => Just(max / 2 + 1),
        1 => Just(0x80u32), 1 => Just(512u32), 1 => Just(0xFFF5u32), 2 => (0u32..=max),
    ]
    .boxed()
}

pub fn field_edit() -> BoxedStrategy<(u8, u16, u8, u32)> {
    (0usize..FIELDS.len())
        .prop_flat_map(|i| {
            let (s, o, w, _) = FIELDS[i];
            boundary_value(w).prop_map(move |v| (s, o, w, v))
        })
        .boxed()
}

pub fn case_strategy() -> BoxedStrategy<MountCase> {
    let valid = (gen::disk_strategy(VolBias::default(), true), any::<u32>(), any::<u32>()).prop_map(|(disk, write_seed, write_len)| MountCase::Valid { disk, write_seed, write_len });
    let fields = (any::<u8>(), prop::collection::vec(field_edit(), 1..4)).prop_map(|(base, edits)| MountCase::Fields { base, edits });
    let muts = (any::<u8>(), prop::collection::vec((0u8..3, prop_oneof![3 => (0u16..96), 1 => (440u16..512), 1 => (0u16..512)], any::<u8>()), 1..9)).prop_map(|(base, muts)| MountCase::Mutate { base, muts });
    let random = (prop::collection::vec(any::<u8>(), 512), prop::collection::vec(any::<u8>(), 512), prop::collection::vec(any::<u8>(), 512), prop::bool::weighted(0.8))
        .prop_map(|(mbr, boot, info, sigs)| MountCase::Random { mbr, boot, info, sigs });
    let high = (
        prop_oneof![2 => (0u32..4), 2 => (0u32..80), 2 => (0u32..70_000)],
        any::<u8>(),
        prop::collection::vec(field_edit(), 0..3),
        prop_oneof![2 => Just(None), 1 => Just(Some(0u32)), 1 => Just(Some(1u32)), 1 => (0u32..100_000).prop_map(Some), 1 => Just(Some(u32::MAX))],
    )
        .prop_map(|(delta, base, edits, mbr_len)| MountCase::HighLba { delta, base, edits, mbr_len });
    let b16 = prop_oneof![2 => Just(0u16), 2 => Just(1u16), 1 => Just(2u16), 2 => Just(0xFFFFu16), 1 => Just(0xFFFEu16), 1 => Just(0x8000u16), 2 => any::<u16>()];
    let b32 = prop_oneof![2 => Just(0u32), 1 => Just(1u32), 3 => Just(2u32), 2 => Just(u32::MAX), 1 => Just(u32::MAX - 1), 1 => Just(0x0FFF_FFFFu32), 1 => (0u32..70_000), 1 => any::<u32>()];
    let tiny = (any::<u8>(), any::<u8>(), any::<u8>(), any::<u8>(), any::<u8>(), b16, b32, prop::collection::vec(field_edit(), 0..2))
        .prop_map(|(back, reserved, num_fats, fat_size, slack, fs_info, root_cluster, edits)| MountCase::TinyTop { back, reserved, num_fats, fat_size, slack, fs_info, root_cluster, edits });
    prop_oneof![3 => valid, 4 => fields, 2 => muts, 3 => random, 2 => high, 2 => tiny].boxed()
}

/// Every single field x boundary value, and all pairs of the interacting BPB fields.
pub fn enumerate_fields(acc: &mut Acc) -> Option<(Failure, serde_json::Value)> {
    let vals = |w: u8| -> Vec<u32> {
        let max: u32 = match w {
            1 => 0xFF,
            2 => 0xFFFF,
            _ => 0xFFFF_FFFF,
        };
        vec![0, 1, 2, max, max - 1, max / 2, max / 2 + 1]
    };
    for base in 0..2u8 {
        for (s, o, w, _) in FIELDS {
            for v in vals(*w) {
                let c = MountCase::Fields { base, edits: vec![(*s, *o, *w, v)] };
                acc.evaluations += 1;
                if let Err(f) = run_case(&c, acc, false) {
                    return Some((f, serde_json::to_value(&c).unwrap()));
                }
            }
        }
        // pairs among the fields that enter the layout arithmetic
        let inter: Vec<&(u8, u16, u8, &str)> = FIELDS.iter().filter(|f| (f.0 == 1 && f.1 != 510 && f.1 != 42) || (f.0 == 0 && (f.1 == 454 || f.1 == 458))).collect();
        for a in &inter {
            for b in &inter {
                if (a.0, a.1) >= (b.0, b.1) {
                    continue;
                }
                for va in vals(a.2) {
                    for vb in vals(b.2) {
                        let c = MountCase::Fields { base, edits: vec![(a.0, a.1, a.2, va), (b.0, b.1, b.2, vb)] };
                        acc.evaluations += 1;
                        if let Err(f) = run_case(&c, acc, false) {
                            return Some((f, serde_json::to_value(&c).unwrap()));
                        }
                    }
                }
            }
        }
    }
    // the same single-field edits on volumes placed at the very top of the 32-bit block range,
    // where "start + field" sums overflow
    for delta in [0u32, 1, 1000, 65_534] {
        for base in 0..2u8 {
            for (s, o, w, _) in FIELDS {
                for v in vals(*w) {
                    let c = MountCase::HighLba { delta, base, edits: vec![(*s, *o, *w, v)], mbr_len: None };
                    acc.evaluations += 1;
                    if let Err(f) = run_case(&c, acc, false) {
                        return Some((f, serde_json::to_value(&c).unwrap()));
                    }
                }
            }
        }
    }
    acc.class("field-enumeration-complete");
    None
}
