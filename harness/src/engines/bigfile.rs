//! C01 near the 4 GiB file-size limit: one third-party file of 2-4 GiB on a sparse FAT32 volume
//! (64 KiB clusters), seeks with 64-bit offsets, reads around marker blocks, and writes that reach
//! the limit. The model is a sparse byte array: marker blocks + written blocks over zeros.

use crate::api::{self, Api, Surf};
use crate::interp::{ek, panic_msg};
use crate::mkfs::{self, DiskSpec, FsInfoKind, Times, Usable, VolGeom, VolSpec};
use crate::runner::{Acc, Failure};
use crate::simdisk::{Image, Img, SimClock, SimDisk};
use proptest::prelude::*;
use serde::{Deserialize, Serialize};
use serde_json::json;
use std::collections::HashMap;
use std::panic::{catch_unwind, AssertUnwindSafe};

pub const MAX_FILE: u64 = 0xFFFF_FFFF;

#[derive(Clone, Debug, Serialize, Deserialize)]
pub enum BigOp {
    SeekStart(u32),
    /// embedded-io `Seek`: whence 0 = Start, 1 = End, 2 = Current
    IoSeek(u8, i64),
    SeekCurRaw(i32),
    SeekEnd(u32),
    Read(u16),
    /// length, seed, surface (0 raw, 1 wrapper, 2 embedded-io)
    Write(u16, u32, u8),
    Query,
}

#[derive(Clone, Debug, Serialize, Deserialize)]
pub struct BigCase {
    pub size: u32,
    pub one_fat: bool,
    /// 0 read-only, 1 append, 5 create-or-append
    pub mode: u8,
    pub ops: Vec<BigOp>,
}

fn fail(code: &str, detail: String) -> Failure {
    Failure { sig: format!("C01/{}", code), detail }
}

fn marker(block: u64) -> [u8; 512] {
    let mut b = [0u8; 512];
    let mut x = block.wrapping_mul(0x9E37_79B9_7F4A_7C15) | 1;
    for c in b.chunks_mut(8) {
        x ^= x << 13;
        x ^= x >> 7;
        x ^= x << 17;
        c.copy_from_slice(&x.to_le_bytes());
    }
    b
}

fn marker_blocks(size: u32) -> Vec<u64> {
    let last = (size as u64).saturating_sub(1) / 512;
    let mut v: Vec<u64> = vec![0, 1, 127, 128, last, last.saturating_sub(1), last.saturating_sub(127), last.saturating_sub(128)];
    for p in [0x7FFF_FE00u64, 0x8000_0000, 0x8000_0200, 0xA000_0000, 0xBFFF_FE00, 0xC000_0000, 0xFFFE_FE00] {
        if p < size as u64 {
            v.push(p / 512);
        }
    }
    v.sort();
    v.dedup();
    v.retain(|b| *b <= last);
    v
}

const SPC: u32 = 128;
const CLUSTERS: u32 = 70_000;
const FIRST: u32 = 3;

/// FAT32 volume with one contiguous third-party file BIG.BIN of `size` bytes starting at cluster 3.
fn build(size: u32, one_fat: bool) -> (Image, usize) {
    let geom = VolGeom {
        fat32: true,
        spc: SPC as u8,
        reserved: 32,
        num_fats: if one_fat { 1 } else { 2 },
        root_entries: 0,
        clusters: CLUSTERS,
        fat_slack: 0,
        tail_slack: 0,
        total16: false,
        fsinfo_sector: 1,
        root_late: false,
        fsinfo: FsInfoKind::Unknown,
        part_type: 0x0C,
        gap_before: 9,
        hi_nibbles: false,
        label: false,
    };
    let usable = Usable { all: true, low: 0, mid: 0, high: 0, free_after: None, frag_seed: 1, fragmented: false };
    let spec = DiskSpec { vols: vec![Some(VolSpec { geom, usable, root: vec![], root_pad_free: None, root_extra: 0, stale: false }), None, None, None], guard: 8 };
    let (mut img, pv) = mkfs::mkfs(&spec);
    let lay = pv[0].layout.clone();
    assert_eq!(lay.root_cluster, 2, "empty volume: root directory in cluster 2");
    let cb = lay.cluster_bytes() as u64;
    let n = ((size as u64 + cb - 1) / cb).max(1) as u32;
    // FAT: clusters FIRST .. FIRST+n chained, in every copy
    let mut sector: Option<(u32, [u8; 512])> = None;
    let flush = |img: &mut Image, s: &Option<(u32, [u8; 512])>| {
        if let Some((k, b)) = s {
            for copy in 0..lay.num_fats {
                img.wr(lay.fat_start(copy) + *k, b);
            }
        }
    };
    for i in 0..n {
        let c = FIRST + i;
        let val: u32 = if i + 1 == n { 0x0FFF_FFFF } else { c + 1 };
        let k = c / 128;
        if sector.as_ref().map(|s| s.0) != Some(k) {
            flush(&mut img, &sector);
            sector = Some((k, img.rd(lay.fat_start(0) + k)));
        }
        let o = (c % 128) as usize * 4;
        sector.as_mut().unwrap().1[o..o + 4].copy_from_slice(&val.to_le_bytes());
    }
    flush(&mut img, &sector);
    // root entry
    let t = Times { cdate: 0x2A21, ctime: 0x6000, ctenths: 0, mdate: 0x2A21, mtime: 0x6000, adate: 0x2A21 };
    let e = mkfs::short_entry(b"BIG     BIN", 0x20, FIRST, size, &t, true);
    img.patch(lay.cluster_block(2), 0, &e);
    // marker blocks
    for b in marker_blocks(size) {
        let cl = FIRST + (b / SPC as u64) as u32;
        img.wr(lay.cluster_block(cl) + (b % SPC as u64) as u32, &marker(b));
    }
    (img, pv[0].slot)
}

struct Model {
    size: u64,
    off: u64,
    blocks: HashMap<u64, [u8; 512]>,
}

impl Model {
    fn get(&self, pos: u64, len: usize) -> Vec<u8> {
        let mut out = Vec::with_capacity(len);
        let mut p = pos;
        while out.len() < len {
            let b = p / 512;
            let o = (p % 512) as usize;
            let n = (512 - o).min(len - out.len());
            match self.blocks.get(&b) {
                Some(d) => out.extend_from_slice(&d[o..o + n]),
                None => out.extend(std::iter::repeat(0u8).take(n)),
            }
            p += n as u64;
        }
        out
    }
    fn put(&mut self, pos: u64, data: &[u8]) {
        let mut p = pos;
        let mut i = 0usize;
        while i < data.len() {
            let b = p / 512;
            let o = (p % 512) as usize;
            let n = (512 - o).min(data.len() - i);
            let e = self.blocks.entry(b).or_insert([0u8; 512]);
            e[o..o + n].copy_from_slice(&data[i..i + n]);
            p += n as u64;
            i += n;
        }
    }
}

pub fn run_case(c: &BigCase, acc: &mut Acc, verbose: bool) -> Result<(), Failure> {
    let size = c.size.max(1);
    let (img, slot) = build(size, c.one_fat);
    let disk = SimDisk::new(img);
    disk.0.borrow_mut().log_enabled = false;
    let api = api::make_mgr(0, disk.clone(), SimClock::new(99), 7);
    let v = api.open_volume(slot, Surf::Raw).map_err(|e| fail("bigfile-mount", format!("{:?}", e)))?;
    let root = api.open_root_dir(v, Surf::Raw).map_err(|e| fail("bigfile-root", format!("{:?}", e)))?;
    let mode = match c.mode % 3 {
        0 => 0u8,
        1 => 1,
        _ => 5,
    };
    let f = api.open_file(root, "BIG.BIN", api::mode_from_u8(mode), Surf::Raw).map_err(|e| fail("bigfile-open", format!("{:?}", e)))?;
    let writable = mode != 0;
    let mut m = Model { size: size as u64, off: if mode == 0 { 0 } else { size as u64 }, blocks: HashMap::new() };
    for b in marker_blocks(size) {
        m.blocks.insert(b, marker(b));
    }
    let mut big_seek = false;
    let mut limit_write = false;
    let res = catch_unwind(AssertUnwindSafe(|| -> Result<(), Failure> {
        let check_state = |api: &dyn Api, m: &Model, what: &str| -> Result<(), Failure> {
            let l = api.length(f, Surf::Raw).map_err(|e| fail("length", format!("{}: file_length = {:?}", what, ek(&e))))?;
            let o = api.offset(f, Surf::Raw).map_err(|e| fail("offset", format!("{}: file_offset = {:?}", what, ek(&e))))?;
            let e = api.eof(f, Surf::Raw).map_err(|e| fail("eof", format!("{}: file_eof = {:?}", what, ek(&e))))?;
            if l as u64 != m.size {
                return Err(fail("length", format!("after {}: file_length = {:#x}, model {:#x}", what, l, m.size)));
            }
            if o as u64 != m.off {
                return Err(fail("offset", format!("after {}: file_offset = {:#x}, model {:#x}", what, o, m.off)));
            }
            if e != (m.off == m.size) {
                return Err(fail("eof", format!("after {}: file_eof = {}, model offset {:#x} length {:#x}", what, e, m.off, m.size)));
            }
            Ok(())
        };
        check_state(&*api, &m, "open")?;
        for (i, op) in c.ops.iter().enumerate() {
            let what = format!("op {} {:?} (file of {:#x} bytes, offset {:#x})", i, op, m.size, m.off);
            match op {
                BigOp::SeekStart(t) => {
                    let r = api.seek_start(f, *t, Surf::Raw);
                    let ok = (*t as u64) <= m.size;
                    match (ok, &r) {
                        (true, Ok(())) => m.off = *t as u64,
                        (false, Err(_)) => {}
                        _ => return Err(fail("seek-outcome", format!("{}: {:?}", what, r.map_err(|e| ek(&e))))),
                    }
                }
                BigOp::SeekEnd(back) => {
                    let r = api.seek_end(f, *back, Surf::Raw);
                    let ok = (*back as u64) <= m.size;
                    match (ok, &r) {
                        (true, Ok(())) => m.off = m.size - *back as u64,
                        (false, Err(_)) => {}
                        _ => return Err(fail("seek-outcome", format!("{}: {:?}", what, r.map_err(|e| ek(&e))))),
                    }
                }
                BigOp::SeekCurRaw(d) => {
                    let r = api.seek_cur(f, *d, Surf::Raw);
                    let t = m.off as i64 + *d as i64;
                    let ok = t >= 0 && t as u64 <= m.size;
                    match (ok, &r) {
                        (true, Ok(())) => m.off = t as u64,
                        (false, Err(_)) => {}
                        _ => return Err(fail("seek-outcome", format!("{}: {:?}", what, r.map_err(|e| ek(&e))))),
                    }
                }
                BigOp::IoSeek(whence, d) => {
                    let r = api.io_seek(f, *whence, *d);
                    let t: Option<i128> = match whence % 3 {
                        0 => Some((*d as u64) as i128),
                        1 => Some(m.size as i128 + *d as i128),
                        _ => Some(m.off as i128 + *d as i128),
                    };
                    let ok = matches!(t, Some(x) if x >= 0 && x as u128 <= m.size as u128);
                    if whence % 3 != 0 && d.unsigned_abs() > i32::MAX as u64 {
                        big_seek = true;
                    }
                    match (ok, &r) {
                        (true, Ok(p)) => {
                            m.off = t.unwrap() as u64;
                            if *p != m.off {
                                return Err(fail("seek-outcome", format!("{}: Seek::seek returned position {:#x}, expected {:#x}", what, p, m.off)));
                            }
                        }
                        (false, Err(_)) => {}
                        _ => return Err(fail("seek-outcome", format!("{}: target {:?} is {} the file, but Seek::seek = {:?}", what, t, if ok { "inside" } else { "outside" }, r.map_err(|e| ek(&e))))),
                    }
                }
                BigOp::Read(len) => {
                    let len = *len as usize % 5000;
                    let mut buf = vec![0xEEu8; len];
                    let r = api.read(f, &mut buf, Surf::Raw);
                    let exp = (len as u64).min(m.size - m.off) as usize;
                    match r {
                        Ok(n) if n == exp => {
                            let want = m.get(m.off, n);
                            if buf[..n] != want[..] {
                                let p = buf[..n].iter().zip(want.iter()).position(|(a, b)| a != b).unwrap();
                                return Err(fail("read-data", format!("{}: byte at file offset {:#x} is {:#04x}, model {:#04x}", what, m.off + p as u64, buf[p], want[p])));
                            }
                            m.off += n as u64;
                        }
                        other => return Err(fail("read-len", format!("{}: read returned {:?}, expected Ok({})", what, other.map_err(|e| ek(&e)), exp))),
                    }
                }
                BigOp::Write(len, seed, surf) => {
                    let len = (*len as usize % 3000).max(1);
                    let data = mkfs::content(*seed, len as u32);
                    let surf = match surf % 3 {
                        0 => Surf::Raw,
                        1 => Surf::Raii,
                        _ => Surf::Io,
                    };
                    let r = api.write(f, &data, surf);
                    if !writable {
                        if r.is_ok() {
                            return Err(fail("write-on-read-only-handle", what));
                        }
                        continue;
                    }
                    let room = (MAX_FILE - m.off) as usize;
                    let fits = len <= room;
                    if !fits {
                        limit_write = true;
                    }
                    // what the file took is defined by the reported offset
                    let new_off = api.offset(f, Surf::Raw).map_err(|e| fail("offset", format!("{}: {:?}", what, ek(&e))))? as u64;
                    let accepted = new_off.checked_sub(m.off).ok_or_else(|| fail("offset", format!("{}: offset went backwards to {:#x}", what, new_off)))? as usize;
                    if accepted > len || accepted > room {
                        return Err(fail("write-count", format!("{}: offset advanced by {} for a write of {} bytes ({} bytes of room below the size limit)", what, accepted, len, room)));
                    }
                    match &r {
                        // success means: everything was stored (a short count only through embedded-io)
                        Ok(claimed) => {
                            if *claimed != accepted || (surf != Surf::Io && accepted != len) {
                                return Err(fail(
                                    "write-count",
                                    format!("{}: write of {} bytes reported success ({} bytes) but the file took {} ({} bytes of room below the 4 GiB - 1 limit)", what, len, claimed, accepted, room),
                                ));
                            }
                        }
                        Err(e) => {
                            if fits {
                                return Err(fail("write-failed", format!("{}: write of {} bytes failed with {:?} although it fits", what, len, ek(e))));
                            }
                        }
                    }
                    m.put(m.off, &data[..accepted]);
                    m.off += accepted as u64;
                    m.size = m.size.max(m.off);
                }
                BigOp::Query => {}
            }
            check_state(&*api, &m, &what)?;
            if verbose {
                println!("{} -> ok", what);
            }
        }
        // everything around the markers and the written blocks reads back
        let mut blocks: Vec<u64> = m.blocks.keys().copied().collect();
        blocks.sort();
        for b in blocks.iter().take(64) {
            let pos = b * 512;
            if pos >= m.size {
                continue;
            }
            api.seek_start(f, pos as u32, Surf::Raw).map_err(|e| fail("seek-outcome", format!("final seek to {:#x}: {:?}", pos, ek(&e))))?;
            let n = 512.min((m.size - pos) as usize);
            let mut buf = vec![0u8; n];
            let got = api.read(f, &mut buf, Surf::Raw).map_err(|e| fail("read-failed", format!("final read at {:#x}: {:?}", pos, ek(&e))))?;
            if got != n || buf[..] != m.get(pos, n)[..] {
                return Err(fail("read-data", format!("final read of block {} (offset {:#x}): {} bytes, contents {}", b, pos, got, if got == n { "differ from the model" } else { "short" })));
            }
        }
        api.close_file(f, Surf::Raw, false).map_err(|e| fail("close-failed", format!("{:?}", ek(&e))))?;
        Ok(())
    }));
    match res {
        Ok(r) => r?,
        Err(p) => return Err(fail("panic", format!("big-file case panicked: {}", panic_msg(&p).0))),
    }
    acc.ops += c.ops.len() as u64;
    acc.class("bigfile:cases");
    if big_seek {
        acc.class("bigfile:relative-seek-beyond-i32");
    }
    if limit_write {
        acc.class("bigfile:write-reaching-the-size-limit");
    }
    if big_seek || limit_write {
        acc.shape(&("bigfile", c.size, c.mode % 3, c.ops.iter().map(|o| std::mem::discriminant(o)).collect::<Vec<_>>().len(), big_seek, limit_write, c.ops.len()));
        if acc.samples.is_empty() {
            acc.sample(json!({"engine": "bigfile", "size": format!("{:#x}", c.size), "mode": mode, "ops": c.ops.iter().take(8).map(|o| format!("{:?}", o)).collect::<Vec<_>>()}));
        }
    }
    Ok(())
}

pub fn strategy() -> BoxedStrategy<BigCase> {
    let size = prop_oneof![
        3 => Just(0xFFFF_FFF0u32), 2 => Just(0xFFFF_FFFFu32), 2 => Just(0xFFFF_FE00u32), 1 => Just(0xFFFF_0000u32),
        2 => Just(0xC000_0000u32), 1 => Just(0x8000_0005u32), 1 => Just(0x8000_0000u32), 1 => Just(0x7FFF_FFFFu32), 1 => (0x7000_0000u32..=0xFFFF_FFFF),
    ];
    let pos = prop_oneof![
        2 => Just(0u32), 2 => Just(0x7FFF_FFFFu32), 2 => Just(0x8000_0000u32), 1 => Just(0x8000_0001u32), 2 => Just(0xA000_0000u32),
        2 => Just(0xFFFF_FFF0u32), 2 => Just(0xFFFF_FFFFu32), 1 => Just(0xFFFF_FE00u32), 1 => Just(0xC000_0000u32), 2 => any::<u32>(),
    ];
    let delta = prop_oneof![
        2 => Just(0xA000_0000i64), 2 => Just(-0xA000_0000i64), 2 => Just(0x8000_0000i64), 2 => Just(-0x8000_0000i64), 1 => Just(0x7FFF_FFFFi64), 1 => Just(-0x7FFF_FFFFi64),
        1 => Just(0x8000_0001i64), 1 => Just(-0x8000_0001i64), 1 => Just(0xFFFF_FFFFi64), 1 => Just(-0xFFFF_FFFFi64), 1 => Just(0x1_0000_0000i64), 1 => Just(i64::MIN), 1 => Just(i64::MAX),
        3 => (-5000i64..5000), 2 => (-0x1_0000_0000i64..0x1_0000_0000i64),
    ];
    let op = prop_oneof![
        3 => pos.clone().prop_map(BigOp::SeekStart),
        6 => (0u8..3, delta).prop_map(|(w, d)| BigOp::IoSeek(w, d)),
        1 => any::<i32>().prop_map(BigOp::SeekCurRaw),
        2 => prop_oneof![Just(0u32), Just(1u32), Just(15u32), Just(16u32), Just(512u32), (0u32..5000), any::<u32>()].prop_map(BigOp::SeekEnd),
        4 => any::<u16>().prop_map(BigOp::Read),
        5 => (any::<u16>(), any::<u32>(), 0u8..3).prop_map(|(l, s, f)| BigOp::Write(l, s, f)),
        1 => Just(BigOp::Query),
    ];
    (size, any::<bool>(), prop_oneof![1 => Just(0u8), 3 => Just(1u8), 1 => Just(2u8)], prop::collection::vec(op, 1..25))
        .prop_map(|(size, one_fat, mode, ops)| BigCase { size, one_fat, mode, ops })
        .boxed()
}
