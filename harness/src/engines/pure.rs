//! Pure codec properties: C19 (CRC), C18 (entry/timestamp/name codecs), C17(a) (LfnBuffer).

use crate::names::{self, RefName};
use crate::runner::{self, is_open_known, Acc, EvidenceIn, Failure, Outcome, Tier};
use embedded_sdmmc::fat::{FatType, OnDiskDirEntry};
use embedded_sdmmc::sdcard::proto::{crc16, crc7};
use embedded_sdmmc::{BlockIdx, LfnBuffer, ShortFileName, Timestamp};
use proptest::prelude::*;
use serde::{Deserialize, Serialize};
use serde_json::json;
use std::sync::atomic::{AtomicU64, Ordering};
use std::sync::Mutex;
use std::time::Instant;

// ---------------------------------------------------------------- C19

/// CRC-7 by bit-serial long division modulo x^7+x^3+1, result shifted left with end bit.
pub fn ref_crc7(msg: &[u8]) -> u8 {
    // remainder of msg(x) * x^7 mod g(x)
    let mut rem: u16 = 0; // holds up to 8 bits during the step
    let total_bits = msg.len() * 8 + 7;
    for i in 0..total_bits {
        let bit = if i < msg.len() * 8 { (msg[i / 8] >> (7 - i % 8)) & 1 } else { 0 };
        rem = (rem << 1) | bit as u16;
        if rem & 0x80 != 0 {
            rem ^= 0x89; // x^7 + x^3 + 1
        }
    }
    ((rem as u8) << 1) | 1
}

/// CRC-16 by bit-serial long division modulo x^16+x^12+x^5+1, zero initial value.
pub fn ref_crc16(msg: &[u8]) -> u16 {
    let mut rem: u32 = 0;
    let total_bits = msg.len() * 8 + 16;
    for i in 0..total_bits {
        let bit = if i < msg.len() * 8 { (msg[i / 8] >> (7 - i % 8)) & 1 } else { 0 };
        rem = (rem << 1) | bit as u32;
        if rem & 0x1_0000 != 0 {
            rem ^= 0x1_1021;
        }
    }
    rem as u16
}

fn par_ranges<F: Fn(u64, u64) -> Option<Failure> + Sync>(n: u64, f: F) -> Option<Failure> {
    let threads = runner::threads() as u64;
    let chunk = (n + threads - 1) / threads;
    let out: Mutex<Option<(u64, Failure)>> = Mutex::new(None);
    std::thread::scope(|s| {
        for t in 0..threads {
            let f = &f;
            let out = &out;
            s.spawn(move || {
                let a = t * chunk;
                let b = ((t + 1) * chunk).min(n);
                if a >= b {
                    return;
                }
                // enumeration chunks are long: split them so that the watchdog sees progress
                let step = ((b - a) / 64).max(1);
                let mut lo = a;
                let mut res = None;
                while lo < b && res.is_none() {
                    let hi = (lo + step).min(b);
                    res = f(lo, hi);
                    crate::runner::tick();
                    lo = hi;
                }
                if let Some(x) = res {
                    let mut o = out.lock().unwrap();
                    if o.as_ref().map(|(w, _)| *w > t).unwrap_or(true) {
                        *o = Some((t, x));
                    }
                }
            });
        }
    });
    out.into_inner().unwrap().map(|x| x.1)
}

fn crc_fail(code: &str, msg: &[u8], detail: String) -> (Failure, serde_json::Value) {
    (
        Failure {
            sig: format!("C19/{}", code),
            detail,
        },
        json!({ "message": msg }),
    )
}

fn check_msg(m: &[u8]) -> Option<(Failure, serde_json::Value)> {
    let (a, b) = (crc7(m), ref_crc7(m));
    if a != b {
        return Some(crc_fail("crc7-mismatch", m, format!("crc7({:02x?}) = {:#04x}, polynomial division gives {:#04x}", m, a, b)));
    }
    let (a, b) = (crc16(m), ref_crc16(m));
    if a != b {
        return Some(crc_fail("crc16-mismatch", m, format!("crc16({:02x?}) = {:#06x}, polynomial division gives {:#06x}", &m[..m.len().min(16)], a, b)));
    }
    if !m.is_empty() {
        let mut ext = m.to_vec();
        ext.extend_from_slice(&a.to_be_bytes());
        let z = crc16(&ext);
        if z != 0 {
            return Some(crc_fail("append-crc-nonzero", m, format!("crc16(m ++ be(crc16(m))) = {:#06x} for m = {:02x?}", z, &m[..m.len().min(16)])));
        }
    }
    None
}

#[derive(Clone, Debug, Serialize, Deserialize)]
pub struct CrcCase {
    pub message: Vec<u8>,
}

pub fn replay_crc(c: &CrcCase) -> Result<(), Failure> {
    match check_msg(&c.message) {
        Some((f, _)) => Err(f),
        None => Ok(()),
    }
}

pub fn run_c19(tier: Tier, seed: u64) -> i32 {
    let t0 = Instant::now();
    let mut acc = Acc::default();
    let counted = AtomicU64::new(0);
    let mut violation: Option<(Failure, serde_json::Value)> = None;
    // 1. all messages of length 0..=3
    if let Some(v) = check_msg(&[]) {
        violation = Some(v);
    }
    acc.evaluations += 1;
    let found: Mutex<Option<(Failure, serde_json::Value)>> = Mutex::new(None);
    if violation.is_none() {
        let _ = par_ranges(1 << 24, |a, b| {
            let mut n = 0u64;
            for x in a..b {
                let m3 = [(x >> 16) as u8, (x >> 8) as u8, x as u8];
                if let Some(v) = check_msg(&m3) {
                    *found.lock().unwrap() = Some(v);
                    return Some(Failure { sig: "x".into(), detail: String::new() });
                }
                n += 1;
                if x < (1 << 16) {
                    if let Some(v) = check_msg(&m3[1..]) {
                        *found.lock().unwrap() = Some(v);
                        return Some(Failure { sig: "x".into(), detail: String::new() });
                    }
                    n += 1;
                }
                if x < (1 << 8) {
                    if let Some(v) = check_msg(&m3[2..]) {
                        *found.lock().unwrap() = Some(v);
                        return Some(Failure { sig: "x".into(), detail: String::new() });
                    }
                    n += 1;
                }
            }
            counted.fetch_add(n, Ordering::Relaxed);
            None
        });
        violation = found.lock().unwrap().take();
    }
    let enumerated = counted.load(Ordering::Relaxed);
    acc.evaluations += enumerated;
    acc.class_n("exhaustive:len0..3", enumerated + 1);
    // 2. basis messages
    let mut basis = 0u64;
    if violation.is_none() {
        'b: for len in [5usize, 16, 512] {
            for bit in 0..len * 8 {
                let mut m = vec![0u8; len];
                m[bit / 8] = 0x80 >> (bit % 8);
                basis += 1;
                if let Some(v) = check_msg(&m) {
                    violation = Some(v);
                    break 'b;
                }
            }
        }
    }
    acc.evaluations += basis;
    acc.class_n("basis-messages", basis);
    // 3. error detection on 512-byte blocks with the real crc16
    let mut err_patterns = 0u64;
    if violation.is_none() {
        let mut synd: Vec<u16> = Vec::with_capacity(4096);
        for bit in 0..4096usize {
            let mut m = vec![0u8; 512];
            m[bit / 8] = 0x80 >> (bit % 8);
            synd.push(crc16(&m));
        }
        err_patterns += 4096;
        let mut sorted = synd.clone();
        sorted.sort();
        if synd.iter().any(|s| *s == 0) {
            violation = Some(crc_fail("single-bit-undetected", &[], "a single-bit error in a 512-byte block leaves crc16 unchanged".into()));
        } else if sorted.windows(2).any(|w| w[0] == w[1]) {
            violation = Some(crc_fail("double-bit-undetected", &[], "two single-bit syndromes coincide: some double-bit error is undetected".into()));
        }
        // the same single-bit errors on realistic payloads (erased, blank, alternating, seeded): the
        // checksum must follow the reference exactly and differ from the undamaged block's
        if violation.is_none() {
            let mut fills: Vec<[u8; 512]> = vec![[0xFFu8; 512], [0x00u8; 512], [0xAAu8; 512], [0x55u8; 512]];
            let mut seeded = [0u8; 512];
            let mut x: u32 = 0x9E37_79B9;
            for b in seeded.iter_mut() {
                x ^= x << 13;
                x ^= x >> 17;
                x ^= x << 5;
                *b = x as u8;
            }
            fills.push(seeded);
            'fills: for base in fills.iter() {
                let good = crc16(base);
                if good != ref_crc16(base) {
                    violation = Some(crc_fail("crc16-mismatch", base, format!("crc16 = {:#06x}, reference {:#06x}", good, ref_crc16(base))));
                    break;
                }
                for bit in 0..4096usize {
                    let mut m = *base;
                    m[bit / 8] ^= 0x80 >> (bit % 8);
                    let c = crc16(&m);
                    err_patterns += 1;
                    if c != ref_crc16(&m) {
                        violation = Some(crc_fail("crc16-mismatch", &m, format!("block filled with {:#04x}.. and bit {} flipped: crc16 = {:#06x}, reference {:#06x}", base[0], bit, c, ref_crc16(&m))));
                        break 'fills;
                    }
                    if c == good {
                        violation = Some(crc_fail("single-bit-undetected", &m, format!("flipping bit {} of a block filled with {:#04x}.. leaves the checksum at {:#06x}", bit, base[0], good)));
                        break 'fills;
                    }
                }
            }
            acc.class("single-bit-errors-on-filled-blocks");
        }
        // bursts of length <= 16: pattern p (bit 15 set = burst starts here) at bit position pos
        if violation.is_none() {
            let positions: Vec<usize> = match tier {
                Tier::Quick => (0..64).map(|k| k * 64 + (k % 8)).chain([0usize, 1, 7, 8, 4080, 4087, 4095]).collect(),
                Tier::Thorough => (0..4096).collect(),
            };
            let zero = crc16(&[0u8; 512]);
            let found: Mutex<Option<(usize, u32)>> = Mutex::new(None);
            let cnt = AtomicU64::new(0);
            let pos_ref = &positions;
            let _ = par_ranges(positions.len() as u64, |a, b| {
                let mut n = 0u64;
                for pi in a..b {
                    let pos = pos_ref[pi as usize];
                    // only the suffix from the burst's first byte matters (zero prefix leaves the remainder 0)
                    let first = pos / 8;
                    let suffix_len = 512 - first;
                    let mut buf = vec![0u8; suffix_len];
                    for pat in 0x8000u32..0x10000 {
                        for x in buf.iter_mut().take(3) {
                            *x = 0;
                        }
                        // place 16-bit pattern starting at bit (pos % 8) of buf[0]
                        let sh = pos % 8;
                        let v: u32 = (pat << 8) >> sh; // 24-bit window
                        let bytes = [(v >> 16) as u8, (v >> 8) as u8, v as u8];
                        let mut truncated = false;
                        for (k, bb) in bytes.iter().enumerate() {
                            if k < suffix_len {
                                buf[k] = *bb;
                            } else if *bb != 0 {
                                truncated = true;
                            }
                        }
                        if truncated {
                            continue; // burst would leave the block
                        }
                        n += 1;
                        if crc16(&buf) == zero {
                            *found.lock().unwrap() = Some((pos, pat));
                            return Some(Failure { sig: "x".into(), detail: String::new() });
                        }
                    }
                }
                cnt.fetch_add(n, Ordering::Relaxed);
                None
            });
            err_patterns += cnt.load(Ordering::Relaxed);
            if let Some((pos, pat)) = found.lock().unwrap().take() {
                violation = Some(crc_fail("burst-undetected", &[], format!("burst pattern {:#06x} at bit {} of a 512-byte block leaves crc16 unchanged", pat, pos)));
            }
            // quick tier: additionally all positions for sampled patterns
            if violation.is_none() && tier == Tier::Quick {
                for k in 0..2048u32 {
                    let pat = 0x8000 | ((k.wrapping_mul(2654435761) >> 17) & 0x7FFF);
                    for pos in 0..4096usize - 16 {
                        let mut m = [0u8; 512];
                        for bit in 0..16 {
                            if pat & (0x8000 >> bit) != 0 {
                                let p = pos + bit;
                                m[p / 8] |= 0x80 >> (p % 8);
                            }
                        }
                        err_patterns += 1;
                        if crc16(&m[pos / 8..]) == zero {
                            violation = Some(crc_fail("burst-undetected", &[], format!("burst pattern {:#06x} at bit {} undetected", pat, pos)));
                            break;
                        }
                    }
                    if violation.is_some() || k >= 64 {
                        break;
                    }
                }
            }
        }
    }
    acc.evaluations += err_patterns;
    acc.class_n("error-patterns", err_patterns);
    // 4. random messages + linearity via proptest
    let mut out = Outcome { acc, violation, wall_s: 0.0 };
    let mut distinct_random = 0usize;
    if out.violation.is_none() {
        let cases = tier.pick(20_000u64, 2_000_000u64);
        let o = runner::run_parallel(
            "C19",
            seed,
            cases,
            || (prop::collection::vec(any::<u8>(), 0..2048), prop::collection::vec(any::<u8>(), 0..64)).boxed(),
            |(m, x): &(Vec<u8>, Vec<u8>), acc: &mut Acc| {
                if let Some((f, _)) = check_msg(m) {
                    return Err(f);
                }
                // linearity on equal-length pairs
                let n = m.len().min(x.len());
                if n > 0 {
                    let a = &m[..n];
                    let b = &x[..n];
                    let c: Vec<u8> = a.iter().zip(b.iter()).map(|(p, q)| p ^ q).collect();
                    if crc16(&c) != crc16(a) ^ crc16(b) {
                        return Err(Failure { sig: "C19/not-linear".into(), detail: format!("crc16(a^b) != crc16(a)^crc16(b) for a={:02x?} b={:02x?}", a, b) });
                    }
                }
                if m.len() > 3 {
                    acc.shape(m);
                    if acc.samples.len() < 2 {
                        acc.sample(json!({"random_message_len": m.len(), "prefix": &m[..m.len().min(12)], "crc16": crc16(m), "crc7": crc7(m)}));
                    }
                }
                acc.class(if m.len() <= 3 { "random:len<=3" } else if m.len() < 512 { "random:len<512" } else { "random:len>=512" });
                Ok(())
            },
        );
        distinct_random = o.acc.shapes.len();
        out.acc.merge(o.acc);
        out.violation = o.violation.map(|(f, c)| {
            let msg = c.get(0).cloned().unwrap_or(serde_json::Value::Null);
            (f, json!({ "message": msg }))
        });
    }
    out.wall_s = t0.elapsed().as_secs_f64();
    // distinct non-trivial: enumerated messages are pairwise distinct by construction
    // (counted, not assumed: one increment per message checked); random ones by hash
    let distinct = enumerated + basis + distinct_random as u64;
    out.acc.samples.insert(0, json!({"enumerated": "every message of length 0..=3", "example": [0x12, 0x34, 0x56], "crc7": crc7(&[0x12, 0x34, 0x56]), "crc16": crc16(&[0x12, 0x34, 0x56])}));
    let ev = EvidenceIn {
        prop: "C19",
        tier,
        seed,
        level: "exploration",
        rule: "every message of length 0..3 (enumerated, pairwise distinct by construction, counted one by one), every single-bit basis message of length 5/16/512, burst/single/double error patterns on 512-byte blocks, and proptest-generated random messages up to 2 KiB (distinct by hash); non-trivial = message length >= 1",
        exhaustive: Some(true),
        assumptions: vec!["exhaustive flag refers to the length-0..3 and basis-message parts; random messages and (in the quick tier) burst positions are sampled".into()],
        extra: json!({ "distinct_nontrivial": distinct, "enumerated_len_0_to_3": enumerated + 1, "basis_messages": basis, "error_patterns": err_patterns }),
    };
    runner::finish("crc", &out, &ev)
}

// ---------------------------------------------------------------- C18

fn representable(date: u16, time: u16) -> bool {
    let month = (date >> 5) & 0xF;
    let day = date & 0x1F;
    let h = time >> 11;
    let mi = (time >> 5) & 0x3F;
    let s2 = time & 0x1F;
    (1..=12).contains(&month) && (1..=31).contains(&day) && h < 24 && mi < 60 && s2 < 30
}

fn ts_check(date: u16, time: u16) -> Option<Failure> {
    let r = std::panic::catch_unwind(|| Timestamp::from_fat(date, time));
    let ts = match r {
        Ok(t) => t,
        Err(_) => {
            return Some(Failure { sig: "C18/from-fat-panic".into(), detail: format!("Timestamp::from_fat({:#06x},{:#06x}) panicked", date, time) });
        }
    };
    if representable(date, time) {
        let r = std::panic::catch_unwind(|| ts.serialize_to_fat());
        let b = match r {
            Ok(b) => b,
            Err(_) => return Some(Failure { sig: "C18/serialize-panic".into(), detail: format!("serialize_to_fat panicked for date {:#06x} time {:#06x}", date, time) }),
        };
        let want = [time as u8, (time >> 8) as u8, date as u8, (date >> 8) as u8];
        if b != want {
            return Some(Failure {
                sig: "C18/timestamp-decode-encode".into(),
                detail: format!("from_fat({:#06x},{:#06x}).serialize_to_fat() = {:02x?}, expected {:02x?}", date, time, b, want),
            });
        }
    }
    None
}

fn cal_check(y: u16, mo: u8, d: u8, h: u8, mi: u8, s: u8) -> Option<Failure> {
    let ts = match Timestamp::from_calendar(y, mo, d, h, mi, s) {
        Ok(t) => t,
        Err(e) => return Some(Failure { sig: "C18/from-calendar-rejects".into(), detail: format!("from_calendar({},{},{},{},{},{}) = Err({})", y, mo, d, h, mi, s, e) }),
    };
    let b = ts.serialize_to_fat();
    let time = u16::from_le_bytes([b[0], b[1]]);
    let date = u16::from_le_bytes([b[2], b[3]]);
    let back = Timestamp::from_fat(date, time);
    let want = Timestamp::from_calendar(y, mo, d, h, mi, s & !1).unwrap();
    if back != want {
        return Some(Failure {
            sig: "C18/timestamp-encode-decode".into(),
            detail: format!("{}-{}-{} {}:{}:{} encodes to date {:#06x} time {:#06x} which decodes to {:?}", y, mo, d, h, mi, s, date, time, back),
        });
    }
    // spec layout of the words
    let want_date = ((y - 1980) << 9) | ((mo as u16) << 5) | d as u16;
    let want_time = ((h as u16) << 11) | ((mi as u16) << 5) | (s as u16 / 2);
    if date != want_date || time != want_time {
        return Some(Failure {
            sig: "C18/timestamp-layout".into(),
            detail: format!("{}-{}-{} {}:{}:{} encodes to date {:#06x} time {:#06x}, specification says {:#06x} {:#06x}", y, mo, d, h, mi, s, date, time, want_date, want_time),
        });
    }
    None
}

pub const NAME_ALPHABET: &[char] = &[
    'A', 'Z', 'a', 'z', '0', '9', '.', ' ', '"', '*', '+', ',', '/', ':', ';', '<', '=', '>', '?', '[', '\\', ']', '|', '!', '#', '$', '%', '&', '\'', '(', ')', '-', '@', '^', '_', '`', '{', '}',
    '~', '\u{1}', '\u{1f}', '\u{7f}', '\u{a3}', '\u{c5}', '\u{e5}', '\u{e9}', '\u{ff}', '\u{100}', '\u{20ac}', '\u{1f600}',
    // the edges of the two Latin-1 letter blocks and the two non-letters inside them
    '\u{c0}', '\u{d6}', '\u{d7}', '\u{d8}', '\u{de}', '\u{df}', '\u{e0}', '\u{f6}', '\u{f7}', '\u{f8}', '\u{fe}',
];

fn sfn_bytes(s: &ShortFileName) -> [u8; 11] {
    let mut n = [b' '; 11];
    let b = s.base_name();
    let e = s.extension();
    n[..b.len().min(8)].copy_from_slice(&b[..b.len().min(8)]);
    n[8..8 + e.len().min(3)].copy_from_slice(&e[..e.len().min(3)]);
    n
}

pub fn name_check(s: &str) -> Option<Failure> {
    let r = std::panic::catch_unwind(|| ShortFileName::create_from_str(s));
    let got = match r {
        Ok(g) => g,
        Err(_) => return Some(Failure { sig: "C18/name-parse-panic".into(), detail: format!("create_from_str({:?}) panicked", s) }),
    };
    match (names::ref_parse(s), got) {
        (RefName::DontCare, _) => None,
        (RefName::Invalid, Err(_)) => None,
        (RefName::Invalid, Ok(n)) => Some(Failure {
            sig: "C18/name-invalid-accepted".into(),
            detail: format!("create_from_str({:?}) accepted an invalid 8.3 name as {:?}", s, n),
        }),
        (RefName::Valid(_), Err(e)) => Some(Failure {
            sig: "C18/name-valid-rejected".into(),
            detail: format!("create_from_str({:?}) rejected a valid 8.3 name: {:?}", s, e),
        }),
        (RefName::Valid(want), Ok(n)) => {
            let mut got = sfn_bytes(&n);
            if got[0] == 0x05 {
                // stored form of a leading 0xE5 (the property text is silent on it: both accepted)
                got[0] = 0xE5;
            }
            // base_name()/extension() stop at the first space, so compare via checksum too
            let want_sum = crate::fsck::sfn_checksum(&want);
            if got != want {
                return Some(Failure {
                    sig: "C18/name-bytes".into(),
                    detail: format!("create_from_str({:?}) gives {:02x?}, expected {:02x?}", s, got, want),
                });
            }
            let mut stored = want;
            if stored[0] == 0xE5 {
                stored[0] = 0x05;
            }
            let want_sum2 = crate::fsck::sfn_checksum(&stored);
            if got == want && n.csum() != want_sum && n.csum() != want_sum2 {
                return Some(Failure { sig: "C18/name-bytes".into(), detail: format!("create_from_str({:?}): checksum {:#04x} does not match its 11 bytes ({:#04x})", s, n.csum(), want_sum) });
            }
            // print and parse again
            let printed = format!("{}", n);
            match ShortFileName::create_from_str(&printed) {
                Ok(n2) if n2 == n => None,
                other => Some(Failure {
                    sig: "C18/name-display-roundtrip".into(),
                    detail: format!("{:?} parses to {:?}, prints as {:?}, which parses to {:?}", s, n, printed, other),
                }),
            }
        }
    }
}

#[derive(Clone, Debug, Serialize, Deserialize)]
pub struct EntryCase {
    pub raw: [u8; 32],
    pub fat32: bool,
    pub block: u32,
    pub off: u32,
}

pub fn entry_check(c: &EntryCase) -> Result<(), Failure> {
    let ft = if c.fat32 { FatType::Fat32 } else { FatType::Fat16 };
    let raw = c.raw;
    let e = OnDiskDirEntry::new(&raw).get_entry(ft, BlockIdx(c.block), c.off);
    let bad = |code: &str, d: String| Err(Failure { sig: format!("C18/{}", code), detail: d });
    // decode: fields at the specification's offsets
    if e.name.csum() != crate::fsck::sfn_checksum(&raw[0..11]) || format!("{}", e.name) != names::display_name(&raw[0..11].try_into().unwrap()) {
        return bad("entry-decode-name", format!("name decoded as {:?} from {:02x?}", e.name, &raw[0..11]));
    }
    if e.size != u32::from_le_bytes([raw[28], raw[29], raw[30], raw[31]]) {
        return bad("entry-decode-size", format!("size decoded as {} from {:02x?}", e.size, &raw[28..32]));
    }
    let lo = u16::from_le_bytes([raw[26], raw[27]]) as u32;
    let hi = u16::from_le_bytes([raw[20], raw[21]]) as u32;
    let want_cluster = if c.fat32 { (hi << 16) | lo } else { lo };
    let is_dir = raw[11] & 0x10 != 0;
    let got_cluster = e.cluster.verif_raw();
    let root_marker = want_cluster == 0 && is_dir;
    if !root_marker && got_cluster != want_cluster {
        return bad("entry-decode-cluster", format!("cluster decoded as {:#x}, bytes say {:#x} (fat32={})", got_cluster, want_cluster, c.fat32));
    }
    if root_marker && e.cluster != embedded_sdmmc::ClusterId::ROOT_DIR {
        return bad("entry-decode-root-marker", format!("cluster 0 + directory bit decoded as {:#x}", got_cluster));
    }
    if e.attributes.is_directory() != is_dir || e.attributes.is_read_only() != (raw[11] & 1 != 0) || e.attributes.is_hidden() != (raw[11] & 2 != 0) || e.attributes.is_system() != (raw[11] & 4 != 0) || e.attributes.is_volume() != (raw[11] & 8 != 0) || e.attributes.is_archive() != (raw[11] & 0x20 != 0) {
        return bad("entry-decode-attr", format!("attributes decoded as {:?} from {:#04x}", e.attributes, raw[11]));
    }
    let mdate = u16::from_le_bytes([raw[24], raw[25]]);
    let mtime = u16::from_le_bytes([raw[22], raw[23]]);
    let cdate = u16::from_le_bytes([raw[16], raw[17]]);
    let ctime = u16::from_le_bytes([raw[14], raw[15]]);
    if e.mtime != Timestamp::from_fat(mdate, mtime) || e.ctime != Timestamp::from_fat(cdate, ctime) {
        return bad("entry-decode-times", "timestamps decoded from the wrong offsets".into());
    }
    if e.entry_block != BlockIdx(c.block) || e.entry_offset != c.off {
        return bad("entry-decode-location", "entry location not carried through".into());
    }
    if root_marker {
        return Ok(());
    }
    // encode: bytes at the specification's offsets
    let enc = e.verif_serialize(ft);
    let mut want = [0u8; 32];
    want[0..12].copy_from_slice(&raw[0..12]);
    want[14..18].copy_from_slice(&raw[14..18]);
    want[20..32].copy_from_slice(&raw[20..32]);
    if !c.fat32 {
        want[20] = 0;
        want[21] = 0;
    }
    let times_ok = representable(mdate, mtime) && representable(cdate, ctime);
    for (a, b, what) in [(0usize, 11usize, "name"), (11, 12, "attributes"), (20, 22, "cluster-high"), (26, 28, "cluster-low"), (28, 32, "size")] {
        if enc[a..b] != want[a..b] {
            return bad("entry-encode-layout", format!("{} encoded as {:02x?} at offset {}, specification puts {:02x?} there", what, &enc[a..b], a, &want[a..b]));
        }
    }
    if times_ok && (enc[14..18] != want[14..18] || enc[22..26] != want[22..26]) {
        return bad("entry-encode-layout", format!("times encoded as {:02x?}/{:02x?}, expected {:02x?}/{:02x?}", &enc[14..18], &enc[22..26], &want[14..18], &want[22..26]));
    }
    // decode(encode(e)) == e
    let e2 = OnDiskDirEntry::new(&enc).get_entry(ft, BlockIdx(c.block), c.off);
    if times_ok && e2 != e {
        return bad("entry-roundtrip", format!("{:?} encodes and decodes to {:?}", e, e2));
    }
    Ok(())
}

fn entry_strategy() -> BoxedStrategy<EntryCase> {
    let name = prop_oneof![
        3 => crate::gen::pool_name(),
        1 => any::<[u8; 11]>().prop_map(|mut n| { for b in n.iter_mut() { if *b == b' ' || *b == 0 { *b = b'X'; } } n }),
    ];
    let cluster = prop_oneof![Just(0u32), Just(1u32), Just(2u32), Just(0xFFFFu32), Just(0x10000u32), Just(0x0FFF_FFFFu32), Just(0x0FFF_FFF6u32), (0u32..0x1000_0000)];
    let size = prop_oneof![Just(0u32), Just(1u32), Just(511u32), Just(512u32), Just(1u32 << 31), Just(u32::MAX), any::<u32>()];
    (name, any::<u8>(), cluster, size, crate::gen::valid_date(), crate::gen::valid_time(), crate::gen::valid_date(), crate::gen::valid_time(), any::<bool>(), any::<u32>(), (0u32..16))
        .prop_map(|(name, attr, cluster, size, cd, ct, md, mt, fat32, block, slot)| {
            let cluster = if fat32 { cluster } else { cluster & 0xFFFF };
            let t = crate::mkfs::Times { cdate: cd, ctime: ct, ctenths: 0, mdate: md, mtime: mt, adate: 0 };
            let raw = crate::mkfs::short_entry(&name, attr, cluster, size, &t, fat32);
            EntryCase { raw, fat32, block, off: slot * 32 }
        })
        .boxed()
}

#[derive(Clone, Debug, Serialize, Deserialize)]
pub enum CodecCase {
    Name(String),
    Entry(EntryCase),
    FatTime(u16, u16),
    Calendar(u16, u8, u8, u8, u8, u8),
}

pub fn replay_codec(c: &CodecCase) -> Result<(), Failure> {
    match c {
        CodecCase::Name(s) => name_check(s).map(Err).unwrap_or(Ok(())),
        CodecCase::Entry(e) => entry_check(e),
        CodecCase::FatTime(d, t) => ts_check(*d, *t).map(Err).unwrap_or(Ok(())),
        CodecCase::Calendar(y, mo, d, h, mi, s) => cal_check(*y, *mo, *d, *h, *mi, *s).map(Err).unwrap_or(Ok(())),
    }
}

fn name_strategy() -> BoxedStrategy<String> {
    let ch = (0usize..NAME_ALPHABET.len()).prop_map(|i| NAME_ALPHABET[i]);
    let valid_ch = prop_oneof![(b'A'..=b'Z').prop_map(|c| c as char), (b'a'..=b'z').prop_map(|c| c as char), (b'0'..=b'9').prop_map(|c| c as char), prop::sample::select(vec!['!', '#', '$', '%', '&', '\'', '(', ')', '-', '@', '^', '_', '`', '{', '}', '~', '\u{a3}', '\u{e9}', '\u{ff}', '\u{e5}', '\u{d7}', '\u{df}', '\u{f7}']), (0xA1u8..=0xFF).prop_map(|c| c as char)];
    let valid = (prop::collection::vec(valid_ch.clone(), 1..9), prop::option::of(prop::collection::vec(valid_ch.clone(), 0..4))).prop_map(|(b, e)| {
        let mut s: String = b.into_iter().collect();
        if let Some(e) = e {
            s.push('.');
            s.extend(e);
        }
        s
    });
    let mutated = (valid.clone(), any::<u16>(), ch.clone(), 0u8..3).prop_map(|(s, pos, c, kind)| {
        let mut v: Vec<char> = s.chars().collect();
        let p = (pos as usize * (v.len() + 1)) >> 16;
        match kind {
            0 => v.insert(p.min(v.len()), c),
            1 => {
                if !v.is_empty() {
                    let q = p.min(v.len() - 1);
                    v[q] = c;
                }
            }
            _ => {
                if !v.is_empty() {
                    v.remove(p.min(v.len() - 1));
                }
            }
        }
        v.into_iter().collect::<String>()
    });
    let random = prop::collection::vec(ch, 0..14).prop_map(|v| v.into_iter().collect::<String>());
    prop_oneof![3 => valid, 3 => mutated, 2 => random].boxed()
}

pub fn run_c18(tier: Tier, seed: u64) -> i32 {
    let t0 = Instant::now();
    let known = runner::load_known();
    let mut acc = Acc::default();
    let mut violation: Option<(Failure, serde_json::Value)> = None;
    let mut exhaustive_ts = false;
    // ---- timestamps, decode direction
    {
        let found: Mutex<Option<(Failure, serde_json::Value)>> = Mutex::new(None);
        let cnt = AtomicU64::new(0);
        let nt = AtomicU64::new(0);
        match tier {
            Tier::Thorough => {
                let _ = par_ranges(1 << 32, |a, b| {
                    let mut n = 0;
                    let mut r = 0;
                    for x in a..b {
                        let (d, t) = ((x >> 16) as u16, x as u16);
                        if let Some(f) = ts_check(d, t) {
                            *found.lock().unwrap() = Some((f, serde_json::to_value(CodecCase::FatTime(d, t)).unwrap()));
                            return Some(Failure { sig: "x".into(), detail: String::new() });
                        }
                        n += 1;
                        if representable(d, t) {
                            r += 1;
                        }
                    }
                    cnt.fetch_add(n, Ordering::Relaxed);
                    nt.fetch_add(r, Ordering::Relaxed);
                    None
                });
                exhaustive_ts = true;
            }
            Tier::Quick => {
                // every date with 512 spread times, every time with 512 spread dates: the
                // codec treats the halves independently, so each field is covered completely
                let _ = par_ranges(1 << 16, |a, b| {
                    let mut n = 0;
                    let mut r = 0;
                    for x in a..b {
                        for k in 0..512u32 {
                            let other = (k.wrapping_mul(0x9E37) ^ (k << 7) ^ x as u32) as u16;
                            for (d, t) in [(x as u16, other), (other, x as u16)] {
                                if let Some(f) = ts_check(d, t) {
                                    *found.lock().unwrap() = Some((f, serde_json::to_value(CodecCase::FatTime(d, t)).unwrap()));
                                    return Some(Failure { sig: "x".into(), detail: String::new() });
                                }
                                n += 1;
                                if representable(d, t) {
                                    r += 1;
                                }
                            }
                        }
                    }
                    cnt.fetch_add(n, Ordering::Relaxed);
                    nt.fetch_add(r, Ordering::Relaxed);
                    None
                });
            }
        }
        acc.evaluations += cnt.load(Ordering::Relaxed);
        acc.class_n("fat-date-time-pairs", cnt.load(Ordering::Relaxed));
        acc.class_n("fat-date-time-pairs-representable", nt.load(Ordering::Relaxed));
        violation = found.lock().unwrap().take();
    }
    // ---- calendar direction
    if violation.is_none() {
        let found: Mutex<Option<(Failure, serde_json::Value)>> = Mutex::new(None);
        let cnt = AtomicU64::new(0);
        let days: Vec<(u16, u8, u8)> = (1980u16..=2107).flat_map(|y| (1u8..=12).flat_map(move |m| (1u8..=31).map(move |d| (y, m, d)))).collect();
        let days_ref = &days;
        let _ = par_ranges(days.len() as u64, |a, b| {
            let mut n = 0;
            for i in a..b {
                let (y, mo, d) = days_ref[i as usize];
                let secs: Box<dyn Iterator<Item = u32>> = match tier {
                    Tier::Thorough => Box::new(0..86400u32),
                    Tier::Quick => Box::new((0..1000u32).map(move |k| (k * 86 + (i as u32 * 7) % 86) % 86400)),
                };
                for s in secs {
                    let (h, mi, se) = ((s / 3600) as u8, ((s / 60) % 60) as u8, (s % 60) as u8);
                    if let Some(f) = cal_check(y, mo, d, h, mi, se) {
                        *found.lock().unwrap() = Some((f, serde_json::to_value(CodecCase::Calendar(y, mo, d, h, mi, se)).unwrap()));
                        return Some(Failure { sig: "x".into(), detail: String::new() });
                    }
                    n += 1;
                }
            }
            cnt.fetch_add(n, Ordering::Relaxed);
            None
        });
        // quick: every second of the day on 400 spread days
        if tier == Tier::Quick && found.lock().unwrap().is_none() {
            let _ = par_ranges(400, |a, b| {
                let mut n = 0;
                for k in a..b {
                    let (y, mo, d) = days_ref[(k as usize * 119) % days_ref.len()];
                    for s in 0..86400u32 {
                        let (h, mi, se) = ((s / 3600) as u8, ((s / 60) % 60) as u8, (s % 60) as u8);
                        if let Some(f) = cal_check(y, mo, d, h, mi, se) {
                            *found.lock().unwrap() = Some((f, serde_json::to_value(CodecCase::Calendar(y, mo, d, h, mi, se)).unwrap()));
                            return Some(Failure { sig: "x".into(), detail: String::new() });
                        }
                        n += 1;
                    }
                }
                cnt.fetch_add(n, Ordering::Relaxed);
                None
            });
        }
        acc.evaluations += cnt.load(Ordering::Relaxed);
        acc.class_n("calendar-timestamps", cnt.load(Ordering::Relaxed));
        violation = found.lock().unwrap().take();
    }
    // ---- names: exhaustive short strings
    let mut names_enumerated = 0u64;
    let mut names_nt = 0u64;
    if violation.is_none() {
        let k = NAME_ALPHABET.len() as u64;
        let maxlen = tier.pick(3u32, 4u32);
        let total: u64 = (0..=maxlen).map(|l| k.pow(l)).sum();
        let found: Mutex<Option<(Failure, serde_json::Value)>> = Mutex::new(None);
        let cnt = AtomicU64::new(0);
        let ntc = AtomicU64::new(0);
        let known_hits: Mutex<std::collections::BTreeMap<String, u64>> = Mutex::new(Default::default());
        let known_ref = &known;
        let _ = par_ranges(total, |a, b| {
            let mut n = 0;
            let mut r = 0;
            for idx in a..b {
                // decode idx into a string: lengths in blocks
                let mut rest = idx;
                let mut len = 0u32;
                while rest >= k.pow(len) {
                    rest -= k.pow(len);
                    len += 1;
                }
                let mut s = String::new();
                for _ in 0..len {
                    s.push(NAME_ALPHABET[(rest % k) as usize]);
                    rest /= k;
                }
                if let Some(f) = name_check(&s) {
                    if is_open_known(known_ref, "C18", &f.sig) {
                        *known_hits.lock().unwrap().entry(f.sig.clone()).or_insert(0) += 1;
                    } else {
                        *found.lock().unwrap() = Some((f, serde_json::to_value(CodecCase::Name(s)).unwrap()));
                        return Some(Failure { sig: "x".into(), detail: String::new() });
                    }
                }
                n += 1;
                // non-trivial: accepted, or rejected for a reason other than its first character
                let first_bad = s.chars().next().map(|c| !matches!(names::ref_parse(&c.to_string()), RefName::Valid(_))).unwrap_or(false);
                if !first_bad {
                    r += 1;
                }
            }
            cnt.fetch_add(n, Ordering::Relaxed);
            ntc.fetch_add(r, Ordering::Relaxed);
            None
        });
        names_enumerated = cnt.load(Ordering::Relaxed);
        names_nt = ntc.load(Ordering::Relaxed);
        for (k, v) in known_hits.into_inner().unwrap() {
            *acc.known_seen.entry(k).or_insert(0) += v;
            acc.excluded_known += v;
        }
        acc.evaluations += names_enumerated;
        acc.class_n("names-enumerated", names_enumerated);
        violation = found.lock().unwrap().take();
    }
    // ---- names: every code point of ISO-8859-1 (and the first ones beyond) in every position class,
    //      and every pair of them as a base name and as an extension
    if violation.is_none() {
        let found: Mutex<Option<(Failure, serde_json::Value)>> = Mutex::new(None);
        let cnt = AtomicU64::new(0);
        let ntc = AtomicU64::new(0);
        let known_hits: Mutex<std::collections::BTreeMap<String, u64>> = Mutex::new(Default::default());
        let known_ref = &known;
        let singles = 0x300u64 * 9;
        let pairs = 256u64 * 256 * 2;
        let _ = par_ranges(singles + pairs, |a, b| {
            let mut n = 0;
            let mut r = 0;
            for idx in a..b {
                let s: String = if idx < singles {
                    let c = char::from_u32((idx / 9) as u32).unwrap_or('A');
                    match idx % 9 {
                        0 => format!("{}", c),
                        1 => format!("A{}", c),
                        2 => format!("{}A", c),
                        3 => format!("AAAAAAA{}", c),
                        4 => format!("A.{}", c),
                        5 => format!("A.B{}", c),
                        6 => format!("A.BB{}", c),
                        7 => format!("{}.{}", c, c),
                        _ => format!("AAAAAAAA{}", c),
                    }
                } else {
                    let j = idx - singles;
                    let c1 = char::from_u32(((j / 2) % 256) as u32).unwrap();
                    let c2 = char::from_u32(((j / 2) / 256) as u32).unwrap();
                    if j % 2 == 0 { format!("{}{}", c1, c2) } else { format!("A.{}{}", c1, c2) }
                };
                if let Some(f) = name_check(&s) {
                    if is_open_known(known_ref, "C18", &f.sig) {
                        *known_hits.lock().unwrap().entry(f.sig.clone()).or_insert(0) += 1;
                    } else {
                        *found.lock().unwrap() = Some((f, serde_json::to_value(CodecCase::Name(s)).unwrap()));
                        return Some(Failure { sig: "x".into(), detail: String::new() });
                    }
                }
                n += 1;
                // counted as non-trivial: accepted by the reference and not already enumerated above
                // (templates 1, 2 and 5 are pairs again)
                let again = idx < singles && matches!(idx % 9, 1 | 2 | 5);
                if !again && matches!(names::ref_parse(&s), RefName::Valid(_)) && s.chars().any(|c| !NAME_ALPHABET.contains(&c)) {
                    r += 1;
                }
            }
            cnt.fetch_add(n, Ordering::Relaxed);
            ntc.fetch_add(r, Ordering::Relaxed);
            None
        });
        for (k, v) in known_hits.into_inner().unwrap() {
            *acc.known_seen.entry(k).or_insert(0) += v;
            acc.excluded_known += v;
        }
        let n = cnt.load(Ordering::Relaxed);
        acc.evaluations += n;
        names_enumerated += n;
        names_nt += ntc.load(Ordering::Relaxed);
        acc.class_n("names-every-code-point-and-pair", n);
        acc.class_n("names-every-code-point-and-pair-valid", ntc.load(Ordering::Relaxed));
        violation = found.lock().unwrap().take();
    }
    // ---- directory entries: the full grid of boundary values (every attribute byte x both FAT types x
    //      boundary clusters x boundary sizes), and every byte value at every position of the name field
    if violation.is_none() {
        let clusters: [u32; 10] = [0, 1, 2, 0xFFFF, 0x10000, 0x0001_0002, 0x0FFF_FFF6, 0x0FFF_FFF7, 0x0FFF_FFFF, 0x0ABC_1234];
        let sizes: [u32; 7] = [0, 1, 511, 512, 1 << 31, u32::MAX, 0x1234_5678];
        let t = crate::mkfs::Times { cdate: 0x5A21, ctime: 0x6B2C, ctenths: 0, mdate: 0x0021, mtime: 0xBF7D, adate: 0 };
        let mut n = 0u64;
        'grid: for attr in 0u16..256 {
            for fat32 in [false, true] {
                for (ci, &cl) in clusters.iter().enumerate() {
                    for (si, &sz) in sizes.iter().enumerate() {
                        let cl = if fat32 { cl } else { cl & 0xFFFF };
                        let raw = crate::mkfs::short_entry(b"GRID    BIN", attr as u8, cl, sz, &t, fat32);
                        let c = EntryCase { raw, fat32, block: (attr as u32) << 8 | ci as u32, off: ((si as u32 * 5 + ci as u32) % 16) * 32 };
                        n += 1;
                        if let Err(f) = entry_check(&c) {
                            violation = Some((f, serde_json::to_value(CodecCase::Entry(c)).unwrap()));
                            break 'grid;
                        }
                    }
                }
            }
        }
        if violation.is_none() {
            'name: for pos in 0usize..11 {
                for b in 1u16..256 {
                    if b as u8 == b' ' || (pos == 0 && (b as u8 == 0xE5 || b as u8 == 0x05)) {
                        continue;
                    }
                    for fat32 in [false, true] {
                        let mut name = *b"NAMEBYTEEXT";
                        name[pos] = b as u8;
                        let raw = crate::mkfs::short_entry(&name, 0x20, 0x1234, 77, &t, fat32);
                        let c = EntryCase { raw, fat32, block: 9, off: 64 };
                        n += 1;
                        if let Err(f) = entry_check(&c) {
                            violation = Some((f, serde_json::to_value(CodecCase::Entry(c)).unwrap()));
                            break 'name;
                        }
                    }
                }
            }
        }
        acc.evaluations += n;
        acc.class_n("entries-boundary-grid", n);
        names_nt += n;
    }
    // ---- generated names and entries
    let mut out = Outcome { acc, violation, wall_s: 0.0 };
    let mut distinct_gen = 0usize;
    if out.violation.is_none() {
        let cases = tier.pick(60_000u64, 3_000_000u64);
        let o = runner::run_parallel(
            "C18",
            seed,
            cases,
            || prop_oneof![name_strategy().prop_map(CodecCase::Name), entry_strategy().prop_map(CodecCase::Entry)].boxed(),
            |c: &CodecCase, acc: &mut Acc| {
                match replay_codec(c) {
                    Err(f) => {
                        if is_open_known(&known, "C18", &f.sig) {
                            acc.known(&f.sig);
                            return Ok(());
                        }
                        Err(f)
                    }
                    Ok(()) => {
                        match c {
                            CodecCase::Name(s) => {
                                let class = match names::ref_parse(s) {
                                    RefName::Valid(_) => "gen-name:valid",
                                    RefName::Invalid => "gen-name:invalid",
                                    RefName::DontCare => "gen-name:dont-care",
                                };
                                acc.class(class);
                                if s.chars().count() > 3 {
                                    acc.shape(s);
                                }
                                if acc.samples.len() < 2 && s.len() > 4 {
                                    acc.sample(json!({"name": s, "reference": format!("{:?}", names::ref_parse(s))}));
                                }
                            }
                            CodecCase::Entry(e) => {
                                acc.class(if e.fat32 { "gen-entry:fat32" } else { "gen-entry:fat16" });
                                acc.shape(&(e.raw, e.fat32));
                                if acc.samples.len() < 3 {
                                    acc.sample(json!({"entry_bytes": e.raw, "fat32": e.fat32}));
                                }
                            }
                            _ => {}
                        }
                        Ok(())
                    }
                }
            },
        );
        distinct_gen = o.acc.shapes.len();
        out.acc.merge(o.acc);
        out.violation = o.violation;
    }
    out.wall_s = t0.elapsed().as_secs_f64();
    let distinct = names_nt + distinct_gen as u64;
    let ev = EvidenceIn {
        prop: "C18",
        tier,
        seed,
        level: "exploration",
        rule: "timestamps: (date,time) field pairs and calendar timestamps enumerated; names: every string up to length 3 (4 in thorough) over a 61-symbol alphabet covering every class the parser distinguishes and the edges of the Latin-1 letter blocks, every code point U+0000..U+02FF in nine position classes of base name and extension, every pair of ISO-8859-1 code points as a base name and as an extension, plus proptest-generated valid / one-mutation / random strings up to length 13; directory entries: the full grid of all 256 attribute bytes x both FAT types x 10 boundary clusters x 7 boundary sizes and every byte value at every name position (enumerated, distinct by construction), plus proptest over boundary and random values of every field, both FAT types. distinct_nontrivial counts enumerated names that the reference accepts or rejects for a reason other than their first character (distinct by construction, counted) plus generated names longer than 3 and entries (distinct by hash)",
        exhaustive: Some(exhaustive_ts),
        assumptions: vec![
            "DEL (0x7f) in a name is treated as don't-care; the letters of ISO-8859-1 with an upper-case partner inside it (U+00E0..=U+00FE without the division sign) must be stored upper-cased, every other code point as typed".into(),
            "exhaustive=true only in the thorough tier (all 2^32 date/time pairs, all seconds 1980-2107); the quick tier covers every value of each field with 512 companions".into(),
        ],
        extra: json!({ "distinct_nontrivial": distinct, "names_enumerated": names_enumerated }),
    };
    runner::finish("codec", &out, &ev)
}

// ---------------------------------------------------------------- C17 (a)

#[derive(Clone, Debug, Serialize, Deserialize)]
pub struct LfnBufCase {
    /// fragments in *name order*; they are pushed last-first as the listing does
    pub frags: Vec<[u16; 13]>,
    pub size: u16,
}

pub fn unit_class() -> BoxedStrategy<u16> {
    prop_oneof![
        6 => (0x20u16..0x7F),
        2 => (0x80u16..0xD800),
        1 => Just(0u16),
        1 => Just(0xFFFFu16),
        2 => (0xD800u16..0xDC00),
        2 => (0xDC00u16..0xE000),
        1 => Just(0xFFFDu16),
        1 => Just(0xFFFEu16),
        1 => (0xE000u16..0xFFFD),
        // the ends of the surrogate ranges and their neighbours
        1 => prop_oneof![Just(0xD7FFu16), Just(0xD800u16), Just(0xDBFFu16), Just(0xDC00u16), Just(0xDFFFu16), Just(0xE000u16)],
    ]
    .boxed()
}

fn cut(f: &[u16; 13]) -> &[u16] {
    let n = f.iter().position(|x| *x == 0).unwrap_or(13);
    &f[..n]
}

pub fn lfnbuf_expected(frags: &[[u16; 13]]) -> String {
    let mut joined: Vec<u16> = Vec::new();
    for f in frags {
        joined.extend_from_slice(cut(f));
    }
    String::from_utf16_lossy(&joined)
}

pub fn lfnbuf_check(c: &LfnBufCase) -> Result<(), Failure> {
    let expected = lfnbuf_expected(&c.frags);
    let size = c.size as usize;
    let frags = c.frags.clone();
    let r = std::panic::catch_unwind(move || {
        let mut storage = vec![0xAAu8; size];
        let mut lb = LfnBuffer::new(&mut storage);
        for f in frags.iter().rev() {
            lb.push(f);
        }
        lb.as_str().as_bytes().to_vec()
    });
    let bytes = match r {
        Ok(b) => b,
        Err(p) => {
            let (m, _) = crate::interp::panic_msg(&p);
            return Err(Failure { sig: "C17/lfnbuffer-panic".into(), detail: format!("LfnBuffer::push panicked ({}) for {} fragments, buffer {}", m, c.frags.len(), size) });
        }
    };
    let s = match std::str::from_utf8(&bytes) {
        Ok(s) => s.to_string(),
        Err(_) => return Err(Failure { sig: "C17/invalid-utf8".into(), detail: format!("as_str() is not valid UTF-8: {:02x?}", &bytes[..bytes.len().min(24)]) }),
    };
    let want = if expected.len() <= size { expected.clone() } else { String::new() };
    if s != want {
        // classify the known shape: a lone surrogate at the very start of the name is dropped
        let first = c.frags.first().map(|f| f[0]).unwrap_or(0);
        let lead_sur = (0xD800..0xE000).contains(&first);
        if lead_sur && expected.starts_with('\u{fffd}') {
            let rest: String = expected.chars().skip(1).collect();
            if s == rest || (rest.len() <= size && expected.len() > size && s == rest) {
                return Err(Failure { sig: "C17/leading-lone-surrogate-dropped".into(), detail: format!("name starts with unpaired surrogate {:#06x}: got {:?}, lossy decoding is {:?}", first, s, expected) });
            }
        }
        return Err(Failure {
            sig: "C17/lfnbuffer-wrong-string".into(),
            detail: format!("buffer {} bytes, {} fragments: got {:?} ({} bytes), expected {:?} ({} bytes needed)", size, c.frags.len(), s, s.len(), want, expected.len()),
        });
    }
    Ok(())
}

fn lfnbuf_strategy() -> BoxedStrategy<LfnBufCase> {
    let frag = (prop::collection::vec(unit_class(), 13), prop_oneof![3 => Just(13usize), 1 => (0usize..14)]).prop_map(|(v, nul)| {
        let mut f = [0u16; 13];
        f.copy_from_slice(&v);
        if nul < 13 {
            f[nul] = 0;
        }
        f
    });
    prop::collection::vec(frag, 1..21)
        .prop_flat_map(|frags| {
            let need = lfnbuf_expected(&frags).len() as i32;
            let size = prop_oneof![
                4 => (-4i32..5).prop_map(move |d| (need + d).clamp(0, 780) as u16),
                2 => (0u16..=780),
                1 => Just(780u16),
                1 => Just(0u16),
            ];
            (Just(frags), size)
        })
        .prop_map(|(frags, size)| LfnBufCase { frags, size })
        .boxed()
}

pub fn c17a_boundary_enumeration(known: &[runner::KnownFinding], acc: &mut Acc) -> Option<(Failure, serde_json::Value)> {
    // all 8^4 class combinations of (last two units of one fragment, first two of the next),
    // with and without a full 13-unit follower, for three buffer sizes
    let reps: [u16; 8] = [0x41, 0x3042, 0x0000, 0xFFFF, 0xD83D, 0xDE00, 0xFFFD, 0xFFFE];
    for a in reps {
        for b in reps {
            for c in reps {
                for d in reps {
                    for full in [false, true] {
                        let mut f1 = [0x61u16; 13];
                        f1[11] = a;
                        f1[12] = b;
                        let mut f2 = [0x62u16; 13];
                        f2[0] = c;
                        f2[1] = d;
                        if !full {
                            f2[5] = 0;
                        }
                        let frags = vec![f1, f2];
                        let need = lfnbuf_expected(&frags).len();
                        for size in [need, need.saturating_sub(1), 780] {
                            let case = LfnBufCase { frags: frags.clone(), size: size as u16 };
                            acc.evaluations += 1;
                            acc.class("boundary-enumeration");
                            if let Err(f) = lfnbuf_check(&case) {
                                if is_open_known(known, "C17", &f.sig) {
                                    acc.known(&f.sig);
                                    continue;
                                }
                                return Some((f, serde_json::to_value(&case).unwrap()));
                            }
                            acc.shape(&(a, b, c, d, full, size));
                        }
                    }
                }
            }
        }
    }
    // the ends of the two surrogate ranges, as a pair split across the fragment boundary, as a pair
    // inside a fragment, and in the wrong order
    for hi in [0xD800u16, 0xD801, 0xDBFE, 0xDBFF] {
        for lo in [0xDC00u16, 0xDC01, 0xDFFE, 0xDFFF] {
            for shape in 0..4 {
                let mut f1 = [0x61u16; 13];
                let mut f2 = [0x62u16; 13];
                match shape {
                    0 => {
                        f1[12] = hi;
                        f2[0] = lo;
                    }
                    1 => {
                        f1[11] = hi;
                        f1[12] = lo;
                    }
                    2 => {
                        f1[12] = lo;
                        f2[0] = hi;
                    }
                    _ => {
                        f2[0] = hi;
                        f2[1] = lo;
                    }
                }
                let frags = vec![f1, f2];
                let need = lfnbuf_expected(&frags).len();
                for size in [need, 780] {
                    let case = LfnBufCase { frags: frags.clone(), size: size as u16 };
                    acc.evaluations += 1;
                    acc.class("surrogate-range-ends");
                    if let Err(f) = lfnbuf_check(&case) {
                        if is_open_known(known, "C17", &f.sig) {
                            acc.known(&f.sig);
                            continue;
                        }
                        return Some((f, serde_json::to_value(&case).unwrap()));
                    }
                    acc.shape(&("ends", hi, lo, shape, size));
                }
            }
        }
    }
    None
}

pub fn lfnbuf_case_strategy() -> BoxedStrategy<LfnBufCase> {
    lfnbuf_strategy()
}
