//! Byte-level generated directories: C06 (listing / lookup vs. the independent
//! reader) and C17(b) (long-name association during listing).

use crate::api::{self, Api, Surf};
use crate::fsck::{self, DirLoc, FatView, SlotKind};
use crate::gen::{self, FatPick};
use crate::mkfs::{self, lfn_checksum, lfn_slot, short_entry, DiskSpec, Raw32, Slot, Times, VolSpec};
use crate::names::{self, RefName};
use crate::runner::{Acc, Failure};
use crate::simdisk::{SimClock, SimDisk};
use embedded_sdmmc::{DirEntry, Mode, Timestamp};
use proptest::prelude::*;
use serde::{Deserialize, Serialize};
use serde_json::json;
use std::panic::{catch_unwind, AssertUnwindSafe};

#[derive(Clone, Debug, Serialize, Deserialize, PartialEq)]
pub enum Broken {
    WrongCsum,
    Gap,
    Dup,
    MissingFirst,
    MissingLast,
    Reordered,
    DeletedBetween,
    MixedCsum,
    TwentyFragments,
    /// one ordinal byte has bit 5 and/or the reserved bit 7 set (no such fragment exists)
    HighOrdinal,
}

#[derive(Clone, Debug, Serialize, Deserialize, PartialEq)]
pub enum Item {
    /// plain live short entry (file, size 0..) - `dir` makes it a real sub-directory
    Short { name: [u8; 11], attr: u8, size: u32, seed: u32, dir: bool },
    Deleted { name: [u8; 11], rest: [u8; 20] },
    LfnGood { units: Vec<u16>, name: [u8; 11], size: u32, seed: u32 },
    LfnBroken { kind: Broken, units: Vec<u16>, name: [u8; 11] },
    /// short entry directly after another short entry, with the same checksum
    CsumTwin { name: [u8; 11] },
    /// run with no short entry after it
    Orphan { units: Vec<u16> },
    /// LFN fragment whose first 11 raw bytes spell a valid short name
    LfnSpelling { tail: u16 },
    Label,
    Junk(Raw32),
    /// end-of-directory marker (a slot of 32 zero bytes); whatever follows it in the directory is
    /// "past the end marker": invisible to listing and lookup
    End,
    /// a sub-directory entry whose start cluster is not a cluster of the volume (damaged entry):
    /// opening and listing it may fail but must not crash
    WildDir { name: [u8; 11], cluster: u32 },
    /// a volume-label entry whose 11 bytes spell a name from the pool: files and directories of
    /// the same name may stand before or behind it
    NamedLabel { name: [u8; 11] },
    /// 1-5 long-name slots with ordinal bytes drawn from the interesting values (valid, doubled
    /// start, bit 7, bit 5, 0x40 alone), each with the right or a wrong checksum and any of the
    /// attribute bytes that mean "long name" (0x0F, 0x4F, 0x8F, 0xCF), then the short entry. Only
    /// the reader's strict rule says whether that amounts to a name.
    FragSoup { frags: Vec<(u8, bool, u8, u16)>, name: [u8; 11] },
}

#[derive(Clone, Debug, PartialEq)]
pub enum Expect {
    Name(String),
    NoName,
    DontCare,
}

#[derive(Clone, Debug, Serialize, Deserialize, PartialEq)]
pub struct DirCase {
    pub geom: mkfs::VolGeom,
    pub usable: mkfs::Usable,
    pub root_items: Vec<Item>,
    pub sub_items: Vec<Item>,
    pub sub_extra: u8,
    pub root_extra: u8,
    pub root_pad: Option<u16>,
    pub lfn_cap: u16,
    /// (kind, name index): 0 create, 1 delete, 2 mkdir
    pub ops: Vec<(u8, u8, bool)>,
    pub cfg: u8,
}

fn times0() -> Times {
    Times { cdate: 0x2A21, ctime: 0x6000, ctenths: 3, mdate: 0x2C42, mtime: 0x5123, adate: 0x2A21 }
}

fn pad_units(units: &[u16]) -> Vec<[u16; 13]> {
    let mut p: Vec<u16> = units.to_vec();
    if p.len() % 13 != 0 {
        p.push(0);
        while p.len() % 13 != 0 {
            p.push(0xFFFF);
        }
    }
    p.chunks(13).map(|c| c.try_into().unwrap()).collect()
}

/// Lossy decoding the crate is expected to produce: every fragment cut at its first NUL.
fn expected_name(frags_name_order: &[[u16; 13]]) -> String {
    crate::engines::pure::lfnbuf_expected(frags_name_order)
}

/// Build the slots of one directory plus the expectation for every non-LFN,
/// non-deleted slot in order.
fn upper11(n: &[u8; 11]) -> [u8; 11] {
    let mut o = *n;
    for (i, b) in o.iter_mut().enumerate() {
        // a lead byte 0xE5 is kept: such an entry is stored with 0x05 in its place (a third-party
        // entry, which no 8.3 string names any more since the parser upper-cases ISO-8859-1)
        if i == 0 && *b == 0xE5 {
            continue;
        }
        *b = names::latin1_upper(*b);
    }
    o
}

/// pool names, some of them with the lead byte 0xE5 (stored as 0x05 on the medium)
fn entry_name() -> impl Strategy<Value = [u8; 11]> {
    (gen::pool_name(), 0u8..12).prop_map(|(mut n, k)| {
        if k == 0 {
            n[0] = 0xE5;
        }
        n
    })
}

pub fn build_items(items: &[Item], fat32: bool, lfn_cap: usize) -> (Vec<Slot>, Vec<Expect>) {
    // short names are upper case (older corpus files carry lower-case ISO-8859-1 letters)
    let items: Vec<Item> = items
        .iter()
        .cloned()
        .map(|mut it| {
            match &mut it {
                Item::Short { name, .. } | Item::LfnGood { name, .. } | Item::LfnBroken { name, .. } | Item::CsumTwin { name } => *name = upper11(name),
                _ => {}
            }
            it
        })
        .collect();
    let items = &items[..];
    let mut slots: Vec<Slot> = Vec::new();
    let mut exp: Vec<Expect> = Vec::new();
    let t = times0();
    let mut prev_was_junk = false;
    let mut exp_at_end: Option<usize> = None;
    for it in items {
        let mut this_junk = false;
        match it {
            Item::WildDir { name, cluster } => {
                let mut e = short_entry(&upper11(name), 0x10, 0, 0, &t, fat32);
                e[26..28].copy_from_slice(&(*cluster as u16).to_le_bytes());
                e[20..22].copy_from_slice(&((*cluster >> 16) as u16).to_le_bytes());
                slots.push(Slot::Raw(vec![e]));
                exp.push(if prev_was_junk { Expect::DontCare } else { Expect::NoName });
            }
            Item::FragSoup { frags, name } => {
                let csum = lfn_checksum(name);
                let mut pre = Vec::new();
                for (ord, ok, attr_hi, seed) in frags {
                    let mut units = [0xFFFFu16; 13];
                    for (k, u) in units.iter_mut().enumerate().take(1 + (*seed as usize % 13)) {
                        *u = 0x41 + ((*seed as usize + k * 7) % 26) as u16;
                    }
                    if (*seed as usize % 13) < 12 {
                        units[1 + (*seed as usize % 13)] = 0;
                    }
                    let mut r = lfn_slot(if *ord == 0 || *ord == 0xE5 { 0x41 } else { *ord }, &units, if *ok { csum } else { csum.wrapping_add(1 + (*seed as u8 % 200)) });
                    r[11] = 0x0F | (*attr_hi & 0xC0);
                    pre.push(r);
                }
                slots.push(Slot::File { name: *name, attr: 0x20, size: 0, seed: 0, extra: 0, times: t, pre });
                exp.push(Expect::DontCare);
            }
            Item::End => {
                slots.push(Slot::Raw(vec![[0u8; 32]]));
                if exp_at_end.is_none() {
                    exp_at_end = Some(exp.len());
                }
            }
            Item::Short { name, attr, size, seed, dir } => {
                let e = if prev_was_junk { Expect::DontCare } else { Expect::NoName };
                if *dir {
                    slots.push(Slot::Dir { name: *name, attr: 0x10 | (*attr & 0x26), children: vec![], extra: 0, pad_free: None, times: t, pre: vec![] });
                } else {
                    slots.push(Slot::File { name: *name, attr: *attr & 0x27, size: *size, seed: *seed, extra: 0, times: t, pre: vec![] });
                }
                exp.push(e);
            }
            Item::Deleted { name, rest } => {
                let mut r = [0u8; 32];
                r[0..11].copy_from_slice(name);
                r[0] = 0xE5;
                r[11] = 0x20;
                r[12..32].copy_from_slice(rest);
                slots.push(Slot::Raw(vec![r]));
            }
            Item::LfnGood { units, name, size, seed } => {
                let frags = pad_units(units);
                let csum = lfn_checksum(name);
                let n = frags.len();
                let mut pre = Vec::new();
                for i in (0..n).rev() {
                    let mut ord = (i + 1) as u8;
                    if i == n - 1 {
                        ord |= 0x40;
                    }
                    pre.push(lfn_slot(ord, &frags[i], csum));
                }
                let s = expected_name(&frags);
                let e = if n > 20 {
                    Expect::DontCare
                } else if s.len() <= lfn_cap {
                    Expect::Name(s)
                } else {
                    Expect::DontCare // does not fit: None and Some("") are both accepted
                };
                slots.push(Slot::File { name: *name, attr: 0x20, size: *size, seed: *seed, extra: 0, times: t, pre });
                exp.push(e);
            }
            Item::LfnBroken { kind, units, name } => {
                let mut frags = pad_units(units);
                if *kind == Broken::TwentyFragments {
                    while frags.len() < 20 {
                        frags.insert(0, [0x61; 13]);
                    }
                    frags.truncate(20);
                }
                let csum = lfn_checksum(name);
                let n = frags.len();
                // (ordinal, fragment, csum) in disk order
                let mut run: Vec<(u8, [u16; 13], u8)> = (0..n).rev().map(|i| (((i + 1) as u8) | if i == n - 1 { 0x40 } else { 0 }, frags[i], csum)).collect();
                let mut e = Expect::NoName;
                let mut between: Vec<Raw32> = Vec::new();
                match kind {
                    Broken::WrongCsum => {
                        for r in run.iter_mut() {
                            r.2 = csum.wrapping_add(1);
                        }
                    }
                    Broken::Gap => {
                        if n >= 3 {
                            run.remove(1);
                        } else {
                            e = Expect::DontCare;
                        }
                    }
                    Broken::Dup => {
                        if n >= 2 {
                            let d = run[1];
                            run.insert(1, d);
                        } else {
                            e = Expect::DontCare;
                        }
                    }
                    Broken::MissingFirst => {
                        if n >= 2 {
                            run.remove(0);
                        } else {
                            run.clear();
                        }
                    }
                    Broken::MissingLast => {
                        if n >= 2 {
                            run.pop();
                        } else {
                            e = Expect::DontCare;
                        }
                    }
                    Broken::Reordered => {
                        if n >= 3 {
                            run.swap(1, 2);
                            if run[1].0 == run[2].0 {
                                e = Expect::DontCare;
                            }
                        } else if n == 2 {
                            run.swap(0, 1);
                        } else {
                            e = Expect::DontCare;
                        }
                    }
                    Broken::DeletedBetween => {
                        // the entry that follows the run is the deleted one; the live entry
                        // behind it has no run of its own
                        let mut r = [0u8; 32];
                        r[0] = 0xE5;
                        r[1..11].copy_from_slice(b"ELETED  TX");
                        r[11] = 0x20;
                        between.push(r);
                    }
                    Broken::HighOrdinal => {
                        let k = (frags[0][1] as usize ^ name[1] as usize) % n;
                        // bit 5 (ordinals 33..63), the reserved bit 7, or both
                        let bits = [0x20u8, 0x80, 0xA0][(frags[0][2] as usize ^ name[2] as usize) % 3];
                        run[k].0 |= if run[k].0 | bits == 0xE5 { 0x80 } else { bits };
                    }
                    Broken::MixedCsum => {
                        // one fragment of the run carries a different checksum: whichever it is, the
                        // run does not have "a checksum that matches the short entry"
                        if n >= 2 {
                            let k = (frags[0][0] as usize ^ name[0] as usize) % n;
                            run[k].2 = csum.wrapping_add(7);
                        } else {
                            e = Expect::DontCare;
                        }
                    }
                    Broken::TwentyFragments => {
                        // 20 fragments (up to 255 characters) is the longest legal name
                        let s = expected_name(&frags);
                        e = if s.len() <= lfn_cap { Expect::Name(s) } else { Expect::DontCare };
                    }
                }
                let mut pre: Vec<Raw32> = run.iter().map(|(o, f, c)| lfn_slot(*o, f, *c)).collect();
                pre.extend(between);
                slots.push(Slot::File { name: *name, attr: 0x20, size: 0, seed: 0, extra: 0, times: t, pre });
                exp.push(if prev_was_junk { Expect::DontCare } else { e });
            }
            Item::CsumTwin { name } => {
                // a good run + short entry, then immediately a second short entry with equal checksum
                let units: Vec<u16> = "twin long name".encode_utf16().collect();
                let frags = pad_units(&units);
                let csum = lfn_checksum(name);
                let n = frags.len();
                let mut pre = Vec::new();
                for i in (0..n).rev() {
                    pre.push(lfn_slot(((i + 1) as u8) | if i == n - 1 { 0x40 } else { 0 }, &frags[i], csum));
                }
                slots.push(Slot::File { name: *name, attr: 0x20, size: 0, seed: 0, extra: 0, times: t, pre });
                let s = expected_name(&frags);
                exp.push(if s.len() <= lfn_cap { Expect::Name(s) } else { Expect::DontCare });
                // twin: permute two name bytes that contribute equally? simplest: identical name bytes
                // (a duplicate name is legal input for a *listing*)
                slots.push(Slot::Raw(vec![short_entry(name, 0x20, 0, 0, &t, fat32)]));
                exp.push(Expect::NoName);
            }
            Item::Orphan { units } => {
                let frags = pad_units(units);
                let n = frags.len();
                let mut v = Vec::new();
                for i in (0..n).rev() {
                    v.push(lfn_slot(((i + 1) as u8) | if i == n - 1 { 0x40 } else { 0 }, &frags[i], 0x55));
                }
                // an orphan run followed by a deleted slot so that it cannot attach to the next entry
                let mut r = [0u8; 32];
                r[0] = 0xE5;
                r[1] = b'X';
                r[11] = 0x20;
                v.push(r);
                slots.push(Slot::Raw(v));
                this_junk = true; // what follows a deleted slot after a run is in the don't-care class
            }
            Item::LfnSpelling { tail } => {
                // ordinal 0x41 = 'A' (last fragment, number 1); five units of two ASCII letters each
                let mut u = [0xFFFFu16; 13];
                for k in 0..5 {
                    u[k] = 0x4242;
                }
                u[5] = *tail;
                u[6] = 0;
                slots.push(Slot::Raw(vec![lfn_slot(0x41, &u, 0x11)]));
                let mut r = [0u8; 32];
                r[0] = 0xE5;
                r[1] = b'Y';
                r[11] = 0x20;
                slots.push(Slot::Raw(vec![r]));
                this_junk = true;
            }
            Item::Label | Item::NamedLabel { .. } => {
                let mut e = [0u8; 32];
                e[0..11].copy_from_slice(b"SOME LABEL ");
                if let Item::NamedLabel { name } = it {
                    e[0..11].copy_from_slice(&upper11(name));
                    if e[0] == 0xE5 {
                        e[0] = 0x05;
                    }
                }
                e[11] = 0x08;
                e[24..26].copy_from_slice(&0x2A21u16.to_le_bytes());
                slots.push(Slot::Raw(vec![e]));
                exp.push(if prev_was_junk { Expect::DontCare } else { Expect::NoName });
            }
            Item::Junk(raw) => {
                let mut r = *raw;
                if r[0] == 0 {
                    r[0] = 0x01;
                }
                // a long-name slot is one whose attribute byte, masked with 0x3F, is 0x0F (FAT
                // specification); 0x1F, 0x2F, 0x3F are odd but ordinary entries.
                // junk must not look like a directory (the directory comparison would follow it;
                // directories with wild clusters are a separate item)
                if r[11] & 0x3F != 0x0F {
                    r[11] &= !0x10;
                }
                let is_listed = r[0] != 0xE5 && r[11] & 0x3F != 0x0F;
                slots.push(Slot::Raw(vec![r]));
                if is_listed {
                    exp.push(Expect::DontCare);
                }
                this_junk = true;
            }
        }
        prev_was_junk = this_junk;
    }
    if let Some(n) = exp_at_end {
        exp.truncate(n);
    }
    (slots, exp)
}

pub fn to_disk(c: &DirCase) -> (DiskSpec, Vec<Expect>, Vec<Expect>) {
    let (mut root, mut root_exp) = build_items(&c.root_items, c.geom.fat32, c.lfn_cap as usize);
    let (sub, sub_exp) = build_items(&c.sub_items, c.geom.fat32, c.lfn_cap as usize);
    // the sub-directory under test, placed in the middle of the root
    // ... but never behind an end marker
    let first_end = root.iter().position(|s| matches!(s, Slot::Raw(v) if v.iter().any(|r| r[0] == 0)));
    let pos = (root.len() / 2).min(first_end.unwrap_or(usize::MAX));
    // expectations: count non-raw + listed raws before pos
    let mut before = 0usize;
    {
        // recompute how many expectation entries belong to slots before `pos`
        let (s2, e2) = build_items(&c.root_items, c.geom.fat32, c.lfn_cap as usize);
        let _ = e2;
        let mut k = 0usize;
        for (i, s) in s2.iter().enumerate() {
            if i >= pos {
                break;
            }
            k += match s {
                Slot::File { .. } | Slot::Dir { .. } => 1,
                Slot::Raw(v) => v.iter().filter(|r| r[0] != 0 && r[0] != 0xE5 && r[11] & 0x3F != 0x0F).count(),
            };
        }
        before = before.max(k);
    }
    root.insert(
        pos,
        Slot::Dir { name: *b"TESTDIR    ", attr: 0x10, children: sub, extra: c.sub_extra % 4, pad_free: None, times: times0(), pre: vec![] },
    );
    // the expectation for TESTDIR itself: preceded by whatever was at pos-1
    root_exp.insert(before, Expect::DontCare);
    let mut geom = c.geom.clone();
    geom.label = false;
    let vol = VolSpec { geom, usable: c.usable.clone(), root, root_pad_free: c.root_pad, root_extra: c.root_extra % 3, stale: true };
    (DiskSpec { vols: vec![Some(vol), None, None, None], guard: 4 }, root_exp, sub_exp)
}

fn fail(prop: &str, code: &str, detail: String) -> Failure {
    Failure { sig: format!("{}/{}", prop, code), detail }
}

#[derive(Clone, Debug)]
struct Listed {
    e: DirEntry,
    lfn: Option<Option<String>>, // None = plain iterate; Some(x) = lfn listing
    bad_utf8: bool,
}

fn list_via_crate(api: &dyn Api, d: embedded_sdmmc::RawDirectory, cap: Option<usize>, surf: Surf) -> Result<Result<Vec<Listed>, String>, String> {
    let r = catch_unwind(AssertUnwindSafe(|| {
        let mut out = Vec::new();
        let r = match cap {
            None => api.iterate(d, surf, &mut |e| out.push(Listed { e: e.clone(), lfn: None, bad_utf8: false })),
            Some(c) => {
                let mut buf = vec![0u8; c];
                api.iterate_lfn(d, surf, &mut buf, &mut |e, n| {
                    let bad = n.map(|s| std::str::from_utf8(s.as_bytes()).is_err()).unwrap_or(false);
                    out.push(Listed { e: e.clone(), lfn: Some(n.map(|s| String::from_utf8_lossy(s.as_bytes()).to_string())), bad_utf8: bad })
                })
            }
        };
        r.map(|_| out).map_err(|e| format!("{:?}", e))
    }));
    match r {
        Ok(x) => Ok(x),
        Err(p) => Err(crate::interp::panic_msg(&p).0),
    }
}

fn attr_bits(e: &DirEntry) -> u8 {
    let a = e.attributes;
    (a.is_read_only() as u8) | (a.is_hidden() as u8) << 1 | (a.is_system() as u8) << 2 | (a.is_volume() as u8) << 3 | (a.is_directory() as u8) << 4 | (a.is_archive() as u8) << 5
}

/// Compare the crate's view of one directory with the independent reader's.
#[allow(clippy::too_many_arguments)]
fn compare_dir(
    api: &dyn Api,
    d: embedded_sdmmc::RawDirectory,
    listing: &fsck::DirListing,
    fat32: bool,
    expect: Option<&[Expect]>,
    cap: usize,
    what: &str,
    acc: &mut Acc,
    check_c06: bool,
    check_c17: bool,
) -> Result<(), Failure> {
    let want: Vec<&fsck::DSlot> = listing.slots.iter().filter(|s| matches!(s.kind, SlotKind::Live | SlotKind::Label)).collect();
    for (mode, surf) in [(None, Surf::Raw), (Some(cap), Surf::Raii)] {
        let got = match list_via_crate(api, d, mode, surf) {
            Err(p) => return Err(fail(if check_c17 { "C17" } else { "C06" }, "listing-panic", format!("{}: listing panicked: {}", what, p))),
            Ok(Err(e)) => {
                if !matches!(listing.chain_end, fsck::ChainEnd::Eoc) {
                    // a directory whose cluster chain is damaged (reached through an entry with a
                    // wild start cluster): an error is an acceptable answer, a crash is not
                    acc.class("listing:damaged-chain-refused");
                    return Ok(());
                }
                if check_c06 {
                    return Err(fail("C06", "listing-failed", format!("{}: {}", what, e)));
                }
                return Ok(());
            }
            Ok(Ok(v)) => v,
        };
        if check_c17 {
            if let Some(l) = got.iter().find(|l| l.bad_utf8) {
                return Err(fail("C17", "invalid-utf8", format!("{}: long name of {:?} is not valid UTF-8", what, l.e.name)));
            }
        }
        if check_c06 {
            if got.len() != want.len() {
                let gn: Vec<String> = got.iter().map(|l| format!("{}", l.e.name)).collect();
                let wn: Vec<String> = want.iter().map(|s| names::display_name(&s.name())).collect();
                return Err(fail("C06", "listing-count", format!("{}: crate lists {} entries {:?}, independent reader {} {:?}", what, got.len(), gn, want.len(), wn)));
            }
            for (g, w) in got.iter().zip(want.iter()) {
                let e = &g.e;
                let name_ok = e.name.csum() == fsck::sfn_checksum(&w.raw[0..11]) && format!("{}", e.name) == names::display_name(&w.name());
                let first = w.first(fat32);
                let cl = e.cluster.verif_raw();
                let cl_ok = if first == 0 && w.is_dir() { e.cluster == embedded_sdmmc::ClusterId::ROOT_DIR } else { cl == first };
                let md = u16::from_le_bytes([w.raw[24], w.raw[25]]);
                let mt = u16::from_le_bytes([w.raw[22], w.raw[23]]);
                let cd = u16::from_le_bytes([w.raw[16], w.raw[17]]);
                let ct = u16::from_le_bytes([w.raw[14], w.raw[15]]);
                if !name_ok || !cl_ok || e.size != w.size() || attr_bits(e) != (w.attr() & 0x3F) || e.entry_block.0 != w.block || e.entry_offset != w.off || e.mtime != Timestamp::from_fat(md, mt) || e.ctime != Timestamp::from_fat(cd, ct) {
                    return Err(fail(
                        "C06",
                        "listing-entry",
                        format!("{}: callback {:?} does not match the on-disk slot at block {} offset {} ({:02x?})", what, e, w.block, w.off, w.raw),
                    ));
                }
            }
        }
        if check_c17 && mode.is_some() {
            if let Some(exp0) = expect {
                // sub-directories start with '.' and '..'; padded directories end with filler entries
                let mut exp: Vec<Expect> = Vec::new();
                if want.len() >= 2 && want[0].kind == SlotKind::Live && want[0].is_dot() && want[0].is_dir() && want[1].kind == SlotKind::Live && want[1].is_dotdot() {
                    exp.push(Expect::DontCare);
                    exp.push(Expect::DontCare);
                }
                exp.extend(exp0.iter().cloned());
                while exp.len() < got.len() && format!("{}", got[exp.len()].e.name).starts_with("FILL") {
                    exp.push(Expect::DontCare);
                }
                if exp.len() == got.len() {
                    if std::env::var("VERIF_VERBOSE").is_ok() {
                        for (g, x) in got.iter().zip(exp.iter()) {
                            eprintln!("  got {:?} attr {:?} lfn {:?}  | expect {:?}", format!("{}", g.e.name), g.e.attributes, g.lfn, x);
                        }
                    }
                    for (g, x) in got.iter().zip(exp.iter()) {
                        let lfn = g.lfn.clone().unwrap();
                        match x {
                            Expect::DontCare => {}
                            Expect::NoName => {
                                if let Some(s) = lfn {
                                    return Err(fail("C17", "long-name-for-entry-without-run", format!("{}: entry {:?} reported with long name {:?} although no complete matching run precedes it", what, g.e.name, s)));
                                }
                                acc.class("lfn:must-not-report");
                            }
                            Expect::Name(n) => {
                                if lfn.as_deref() != Some(n.as_str()) {
                                    return Err(fail("C17", "long-name-missing-or-wrong", format!("{}: entry {:?} reported with {:?}, expected {:?}", what, g.e.name, lfn, n)));
                                }
                                acc.class("lfn:must-report");
                            }
                        }
                    }
                } else {
                    acc.class("lfn:expectation-misaligned");
                }
            }
            // second oracle, for *every* listed entry (also the ones next to junk, where the
            // generator cannot say what the bytes amount to): the independent reader's decision
            // by the strict rule - a run N|0x40, N-1, .., 1 (N <= 20, no other bit in the ordinal
            // byte), one checksum throughout, directly in front of the entry, equal to the
            // checksum of the entry's 11 name bytes
            if got.len() == want.len() && got.iter().zip(want.iter()).all(|(g, w)| g.e.entry_block.0 == w.block && g.e.entry_offset == w.off) {
                let cap = mode.unwrap();
                for (g, w) in got.iter().zip(want.iter()) {
                    let lfn = g.lfn.clone().unwrap();
                    match &w.lfn {
                        None => {
                            if let Some(s) = lfn {
                                return Err(fail("C17", "long-name-for-entry-without-run", format!("{}: entry {:?} (block {} offset {}) reported with long name {:?}; by the reader's strict rule no complete matching run precedes it", what, g.e.name, w.block, w.off, s)));
                            }
                            acc.class("lfn-reader:must-not-report");
                        }
                        Some(units) => {
                            let s = String::from_utf16_lossy(units);
                            if s.len() <= cap {
                                if lfn.as_deref() != Some(s.as_str()) {
                                    return Err(fail("C17", "long-name-missing-or-wrong", format!("{}: entry {:?} (block {} offset {}) reported with {:?}; the reader's strict rule gives {:?}", what, g.e.name, w.block, w.off, lfn, s)));
                                }
                                acc.class("lfn-reader:must-report");
                            } else {
                                acc.class("lfn-reader:does-not-fit");
                            }
                        }
                    }
                }
            }
        }
    }
    Ok(())
}

fn lookups(
    api: &dyn Api,
    d: embedded_sdmmc::RawDirectory,
    listing: &fsck::DirListing,
    is_root: bool,
    what: &str,
    lay: &fsck::Layout,
    acc: &mut Acc,
) -> Result<(), Failure> {
    let live: Vec<&fsck::DSlot> = listing.slots.iter().filter(|s| matches!(s.kind, SlotKind::Live | SlotKind::Label)).collect();
    // candidate names: listed names, raw bytes of every non-live slot, a few fresh names
    let mut cands: Vec<(String, &'static str)> = Vec::new();
    for s in &listing.slots {
        let disp = names::display_name(&s.name());
        let kind = match s.kind {
            SlotKind::Live | SlotKind::Label => "listed",
            SlotKind::Deleted => "deleted-slot-bytes",
            SlotKind::Lfn => "lfn-slot-bytes",
        };
        // only names the parser maps back to exactly these 11 bytes can be asked for by string
        if let RefName::Valid(n) = names::ref_parse(&disp) {
            if n == s.name() {
                cands.push((disp.clone(), kind));
            }
        }
        if s.kind == SlotKind::Deleted {
            // the original name with a plausible first letter
            let mut n = s.name();
            n[0] = b'D';
            let disp = names::display_name(&n);
            if let RefName::Valid(m) = names::ref_parse(&disp) {
                if m == n {
                    cands.push((disp, "deleted-name-restored"));
                }
            }
        }
    }
    // slots behind the end marker are not part of the directory
    let mut past: Vec<(String, &'static str)> = Vec::new();
    for raw in listing.after_end.iter() {
        if raw[0] == 0xE5 || raw[11] & 0x3F == 0x0F {
            continue;
        }
        let mut n = [0u8; 11];
        n.copy_from_slice(&raw[0..11]);
        let disp = names::display_name(&n);
        if let RefName::Valid(m) = names::ref_parse(&disp) {
            if m == n && !past.iter().any(|p| p.0 == disp) {
                past.push((disp, "past-end-marker"));
            }
        }
    }
    past.truncate(6);
    // they go first so that the cap on candidates does not starve them
    past.extend(cands);
    let mut cands = past;
    for f in ["NOSUCH.FIL", "ZZZ", ".", ".."] {
        cands.push((f.to_string(), "fresh"));
    }
    cands.dedup();
    for (name, kind) in cands.iter().take(40) {
        let RefName::Valid(n11) = names::ref_parse(name) else { continue };
        // a volume label may share its 11 bytes with a file or directory: the name designates the
        // file or directory, and the label only when nothing else carries it
        let first_match = live.iter().find(|s| s.kind == SlotKind::Live && s.name() == n11).or_else(|| live.iter().find(|s| s.name() == n11));
        let r = catch_unwind(AssertUnwindSafe(|| api.find(d, name, Surf::Raw)));
        let r = match r {
            Ok(r) => r,
            Err(p) => return Err(fail("C06", "lookup-panic", format!("{}: find({:?}) panicked: {}", what, name, crate::interp::panic_msg(&p).0))),
        };
        acc.class(&format!("lookup:{}", kind));
        match (first_match, &r) {
            (Some(w), Ok(e)) => {
                if e.entry_block.0 != w.block || e.entry_offset != w.off {
                    return Err(fail("C06", "lookup-wrong-entry", format!("{}: find({:?}) returned the slot at block {} offset {}, the first listed match is at block {} offset {}", what, name, e.entry_block.0, e.entry_offset, w.block, w.off)));
                }
            }
            (Some(_), Err(e)) => {
                return Err(fail("C06", "lookup-misses-listed", format!("{}: find({:?}) = {:?} although the listing contains that name", what, name, e)));
            }
            (None, Ok(e)) => {
                let code = match *kind {
                    "deleted-slot-bytes" => "lookup-finds-deleted",
                    "lfn-slot-bytes" => "lookup-finds-lfn-fragment",
                    "past-end-marker" => "lookup-finds-past-end-marker",
                    _ => "lookup-finds-unlisted",
                };
                return Err(fail("C06", code, format!("{}: find({:?}) succeeded (slot at block {} offset {}) but the listing does not contain that name", what, name, e.entry_block.0, e.entry_offset)));
            }
            (None, Err(e)) => {
                if crate::interp::ek(e) != "NotFound" {
                    return Err(fail("C06", "lookup-error-variant", format!("{}: find({:?}) = {:?}, expected NotFound", what, name, e)));
                }
            }
        }
        // open_dir succeeds iff the listed entry is a directory
        let want_dir = first_match.map(|w| w.is_dir()).unwrap_or(false) || (name == "." );
        let r = catch_unwind(AssertUnwindSafe(|| api.open_dir(d, name, Surf::Raw)));
        let r = match r {
            Ok(r) => r,
            Err(p) => return Err(fail("C06", "open-dir-panic", format!("{}: open_dir({:?}) panicked: {}", what, name, crate::interp::panic_msg(&p).0))),
        };
        match r {
            Ok(h) => {
                // whatever the entry's cluster field holds, listing the opened directory may fail
                // but must not crash
                let lr = catch_unwind(AssertUnwindSafe(|| {
                    let mut n = 0u32;
                    let r = api.iterate(h, Surf::Raw, &mut |_| n += 1);
                    (r.is_ok(), n)
                }));
                let _ = catch_unwind(AssertUnwindSafe(|| api.close_dir(h, Surf::Raw)));
                if let Err(p) = lr {
                    return Err(fail("C06", "listing-panic", format!("{}: listing the directory opened through {:?} panicked: {}", what, name, crate::interp::panic_msg(&p).0)));
                }
                let wild = first_match.map(|w| { let f = w.first(lay.fat32); f != 0 && !lay.in_range(f) }).unwrap_or(false);
                if wild && want_dir && !(name == ".") {
                    // a start cluster that is not a cluster of the volume designates no directory
                    return Err(fail("C06", "open-dir-leads-nowhere", format!("{}: open_dir({:?}) succeeded although the entry's start cluster {:#x} is not on the volume", what, name, first_match.unwrap().first(lay.fat32))));
                }
                if !want_dir {
                    return Err(fail("C06", "open-dir-unlisted", format!("{}: open_dir({:?}) succeeded but the listing has no directory of that name", what, name)));
                }
            }
            Err(e) => {
                // an entry whose start cluster is not a cluster of the volume designates no
                // directory: refusing it as a bad cluster is as good as opening it (and then
                // listing it without crashing)
                let wild = first_match.map(|w| { let f = w.first(lay.fat32); f != 0 && !lay.in_range(f) }).unwrap_or(false);
                if wild && want_dir {
                    acc.class("lookup:wild-dir-refused");
                    if crate::interp::ek(&e) != "BadCluster" {
                        return Err(fail("C06", "open-dir-error-variant", format!("{}: open_dir({:?}) = {:?} for an entry with a start cluster outside the volume, expected BadCluster (or success)", what, name, e)));
                    }
                    continue;
                }
                if want_dir && !(name == ".." && is_root) {
                    return Err(fail("C06", "open-dir-refused", format!("{}: open_dir({:?}) = {:?} although the listing contains that directory", what, name, e)));
                }
            }
        }
    }
    Ok(())
}

const OP_NAMES: &[&str] = &["NEW1", "NEW2.TXT", "TESTDIR", "A", "B.TXT", "FOO.BAR", "SUB", "X1", "DIRX", "LOG", ".", ".."];

/// Run one generated directory case. `props`: which oracles are active.
pub fn run_case(c: &DirCase, acc: &mut Acc, check_c06: bool, check_c17: bool, verbose: bool) -> Result<(), Failure> {
    let (spec, root_exp, sub_exp) = to_disk(c);
    let (img, pvols) = mkfs::mkfs(&spec);
    let lay = pvols[0].layout.clone();
    let disk = SimDisk::new(img);
    disk.0.borrow_mut().log_enabled = false;
    let api = api::make_mgr(c.cfg as usize, disk.clone(), SimClock::new(77), 4000);
    let prop = if check_c06 { "C06" } else { "C17" };
    let v = match api.open_volume(0, Surf::Raw) {
        Ok(v) => v,
        Err(e) => return Err(fail(prop, "mount-failed", format!("{:?}", e))),
    };
    let root = api.open_root_dir(v, Surf::Raw).map_err(|e| fail(prop, "open-root", format!("{:?}", e)))?;
    let phases = if c.ops.is_empty() { 1 } else { 2 };
    for phase in 0..phases {
        if phase == 1 {
            // mutate both directories through the crate, then compare again
            let sub = api.open_dir(root, "TESTDIR", Surf::Raw).ok();
            for (kind, ni, in_sub) in &c.ops {
                let d = if *in_sub { sub.unwrap_or(root) } else { root };
                let name = OP_NAMES[*ni as usize % OP_NAMES.len()];
                let r = catch_unwind(AssertUnwindSafe(|| match kind % 3 {
                    0 => api.open_file(d, name, Mode::ReadWriteCreateOrAppend, Surf::Raw).and_then(|f| {
                        let _ = api.write(f, b"hello world", Surf::Raw);
                        api.close_file(f, Surf::Raw, false)
                    }),
                    1 => api.delete(d, name, Surf::Raw),
                    _ => api.mkdir(d, name, Surf::Raw),
                }));
                if verbose {
                    println!("op {:?} {} -> {:?}", kind % 3, name, r.as_ref().map(|r| r.as_ref().map_err(|e| format!("{:?}", e))));
                }
                match &r {
                    Err(p) => return Err(fail(prop, "op-panic", format!("operation {} on {} panicked: {}", kind % 3, name, crate::interp::panic_msg(p).0))),
                    // the dot names refer to directories that exist already (or, in a root, to
                    // nothing): whatever the directory holds - also a label or junk spelled "." -
                    // no file or directory of that name can be made
                    Ok(Ok(())) if check_c06 && name.starts_with('.') && kind % 3 != 1 => {
                        return Err(fail("C06", "dot-entry-created", format!("{} of {:?} succeeded", if kind % 3 == 0 { "creating a file" } else { "make_dir_in_dir" }, name)));
                    }
                    _ => {}
                }
                acc.class("post-ops");
            }
            if let Some(s) = sub {
                let _ = api.close_dir(s, Surf::Raw);
            }
        }
        // independent view
        let (root_l, sub_l, sub_first, deeper): (fsck::DirListing, Option<fsck::DirListing>, u32, Vec<(bool, String, u32, fsck::DirListing, Option<fsck::DirListing>)>) = disk.with_img(|img| {
            let fv = FatView::new(img, &lay);
            let rl = fsck::list_dir(img, &fv, DirLoc::Root);
            let sub = rl.slots.iter().find(|s| s.kind == SlotKind::Live && &s.raw[0..11] == b"TESTDIR    " && s.is_dir());
            let first = sub.map(|s| s.first(lay.fat32)).unwrap_or(0);
            let sl = sub.map(|s| fsck::list_dir(img, &fv, DirLoc::Cluster(s.first(lay.fat32))));
            // real sub-directories of both (for the '..' checks)
            let mut deeper: Vec<(bool, String, u32, fsck::DirListing, Option<fsck::DirListing>)> = Vec::new();
            for (in_sub, s) in rl.slots.iter().map(|s| (false, s)).chain(sl.iter().flat_map(|l| l.slots.iter()).map(|s| (true, s))) {
                if s.kind == SlotKind::Live && s.is_dir() && !s.is_dot() && !s.is_dotdot() && lay.in_range(s.first(lay.fat32)) {
                    let nm = names::display_name(&s.name());
                    // the first entry of a name is the one a lookup designates
                    if deeper.iter().any(|d| d.0 == in_sub && d.1 == nm) || (!in_sub && nm == "TESTDIR") {
                        continue;
                    }
                    let holder = if in_sub { sl.as_ref().unwrap() } else { &rl };
                    let firstm = holder.slots.iter().find(|x| x.kind == SlotKind::Live && x.name() == s.name());
                    if !firstm.map(|x| std::ptr::eq(x, s)).unwrap_or(false) {
                        continue;
                    }
                    if names::ref_parse(&nm) != names::RefName::Valid(s.name()) {
                        continue;
                    }
                    let l = fsck::list_dir(img, &fv, DirLoc::Cluster(s.first(lay.fat32)));
                    // where the directory's own '..' entry leads, by the bytes on the medium (for a
                    // directory made by the formatter or the crate that is the holder of the entry;
                    // an entry with a wild start cluster can lead anywhere)
                    let up = l.slots.iter().find(|x| matches!(x.kind, SlotKind::Live | SlotKind::Label) && x.is_dotdot()).filter(|x| x.is_dir()).and_then(|dd| {
                        let t = dd.first(lay.fat32);
                        if t == 0 {
                            Some(fsck::list_dir(img, &fv, DirLoc::Root))
                        } else if lay.in_range(t) {
                            Some(fsck::list_dir(img, &fv, DirLoc::Cluster(t)))
                        } else {
                            None
                        }
                    });
                    deeper.push((in_sub, nm, s.first(lay.fat32), l, up));
                }
            }
            (rl, sl, first, deeper)
        });
        if let Some((b, o)) = root_l.nonzero_after_end {
            let _ = (b, o);
        }
        compare_dir(&*api, root, &root_l, lay.fat32, if phase == 0 { Some(&root_exp) } else { None }, c.lfn_cap as usize, "root directory", acc, check_c06, check_c17)?;
        if check_c06 {
            lookups(&*api, root, &root_l, true, "root directory", &lay, acc)?;
        }
        if let Some(sl) = &sub_l {
            let sub = match api.open_dir(root, "TESTDIR", Surf::Raii) {
                Ok(s) => s,
                Err(e) => {
                    if check_c06 {
                        return Err(fail("C06", "open-dir-refused", format!("open_dir(TESTDIR) = {:?}", e)));
                    }
                    return Ok(());
                }
            };
            compare_dir(&*api, sub, sl, lay.fat32, if phase == 0 { Some(&sub_exp) } else { None }, c.lfn_cap as usize, "sub-directory TESTDIR", acc, check_c06, check_c17)?;
            if check_c06 {
                lookups(&*api, sub, sl, false, "sub-directory TESTDIR", &lay, acc)?;
                // '.' leads to the same directory, '..' to the parent (root)
                for (nm, want_l) in [(".", sl), ("..", &root_l)] {
                    match api.open_dir(sub, nm, Surf::Raw) {
                        Ok(h) => {
                            let r = compare_dir(&*api, h, want_l, lay.fat32, None, c.lfn_cap as usize, &format!("directory reached through {:?} from TESTDIR", nm), acc, true, false);
                            let _ = api.close_dir(h, Surf::Raw);
                            r?;
                        }
                        Err(e) => return Err(fail("C06", "open-dir-refused", format!("open_dir({:?}) inside TESTDIR = {:?}", nm, e))),
                    }
                }
            }
            let _ = api.close_dir(sub, Surf::Raw);
            let _ = sub_first;
        }
        // whatever a directory entry holds, listing what it leads to must not crash
        if check_c17 {
            let mut holders = vec![(root, &root_l, false)];
            let subh = if sub_l.is_some() { api.open_dir(root, "TESTDIR", Surf::Raw).ok() } else { None };
            if let (Some(h), Some(sl)) = (subh, sub_l.as_ref()) {
                holders.push((h, sl, true));
            }
            for (parent, l, in_sub) in holders {
                for s in l.slots.iter().filter(|s| s.kind == SlotKind::Live && s.is_dir() && !s.is_dot() && !s.is_dotdot()).take(8) {
                    let nm = names::display_name(&s.name());
                    if names::ref_parse(&nm) != names::RefName::Valid(s.name()) || (!in_sub && nm == "TESTDIR") {
                        continue;
                    }
                    let r = catch_unwind(AssertUnwindSafe(|| {
                        if let Ok(h) = api.open_dir(parent, &nm, Surf::Raw) {
                            let mut buf = vec![0u8; c.lfn_cap as usize];
                            let _ = api.iterate_lfn(h, Surf::Raw, &mut buf, &mut |_, _| {});
                            let _ = api.close_dir(h, Surf::Raw);
                        }
                    }));
                    acc.class(if lay.in_range(s.first(lay.fat32)) { "probe:dir-entry-in-range" } else { "probe:dir-entry-wild-cluster" });
                    if let Err(p) = r {
                        return Err(fail("C17", "listing-panic", format!("listing the directory that entry {:?} (start cluster {:#x}) of the {} leads to panicked: {}", nm, s.first(lay.fat32), if in_sub { "sub-directory" } else { "root directory" }, crate::interp::panic_msg(&p).0)));
                    }
                }
            }
            if let Some(h) = subh {
                let _ = api.close_dir(h, Surf::Raw);
            }
        }
        // every other sub-directory: the directory an entry designates lists as the reader says,
        // and its '..' leads back to the directory holding the entry
        if check_c06 {
            for (in_sub, nm, _first, want, up_l) in deeper.iter().take(6) {
                let parent = if *in_sub {
                    match api.open_dir(root, "TESTDIR", Surf::Raw) {
                        Ok(h) => h,
                        Err(_) => continue,
                    }
                } else {
                    root
                };
                let parent_l = if *in_sub { sub_l.as_ref().unwrap() } else { &root_l };
                let what = format!("directory {:?} of the {}", nm, if *in_sub { "sub-directory TESTDIR" } else { "root directory" });
                let res = (|| -> Result<(), Failure> {
                    let h = api.open_dir(parent, nm, Surf::Raw).map_err(|e| fail("C06", "open-dir-refused", format!("{}: open_dir = {:?}", what, e)))?;
                    let r = compare_dir(&*api, h, want, lay.fat32, None, c.lfn_cap as usize, &what, acc, true, false);
                    // '..' leads to the directory its entry designates: the holder of the entry for
                    // every directory the formatter or the crate made (then `up_l` is the reader's
                    // listing of that holder - asserted below), anything for a damaged entry
                    let r2 = if let (true, Some(up_l)) = (r.is_ok(), up_l.as_ref()) {
                        if up_l.blocks == parent_l.blocks {
                            acc.class("dotdot:leads-to-holder");
                        } else {
                            acc.class("dotdot:leads-elsewhere-on-the-medium");
                        }
                        match api.open_dir(h, "..", Surf::Raw) {
                            Ok(up) => {
                                let r = compare_dir(&*api, up, up_l, lay.fat32, None, c.lfn_cap as usize, &format!("directory reached through \"..\" from {}", what), acc, true, false);
                                let _ = api.close_dir(up, Surf::Raw);
                                r
                            }
                            Err(e) => Err(fail("C06", "open-dir-refused", format!("open_dir(\"..\") inside {} = {:?}", what, e))),
                        }
                    } else {
                        Ok(())
                    };
                    let _ = api.close_dir(h, Surf::Raw);
                    r.and(r2)
                })();
                if *in_sub {
                    let _ = api.close_dir(parent, Surf::Raw);
                }
                res?;
                acc.class("deeper-directory-compared");
            }
        }
    }
    // statistics
    let multi = c.sub_extra % 4 > 0 || c.sub_items.len() * 2 > (lay.cluster_bytes() / 32) as usize;
    let has_lfn = c.root_items.iter().chain(c.sub_items.iter()).any(|i| matches!(i, Item::LfnGood { .. } | Item::LfnBroken { .. } | Item::CsumTwin { .. }));
    let has_del = c.root_items.iter().chain(c.sub_items.iter()).any(|i| matches!(i, Item::Deleted { .. }));
    let broken = c.root_items.iter().chain(c.sub_items.iter()).any(|i| matches!(i, Item::LfnBroken { .. } | Item::CsumTwin { .. }));
    let live = c.root_items.iter().chain(c.sub_items.iter()).filter(|i| matches!(i, Item::Short { .. } | Item::LfnGood { .. })).count();
    if multi {
        acc.class("dir:multi-cluster");
    }
    if has_lfn {
        acc.class("dir:has-lfn-run");
    }
    if has_del {
        acc.class("dir:has-deleted-slot");
    }
    if broken {
        acc.class("dir:has-broken-run-or-checksum-twin");
    }
    acc.class(if lay.fat32 { "geom:fat32" } else { "geom:fat16" });
    if c.geom.root_late {
        acc.class("geom:fat32-root-not-at-cluster-2");
    }
    let nt = if check_c06 { (multi || has_del || has_lfn) && live >= 3 } else { broken };
    if nt {
        let shape: Vec<u8> = c.root_items.iter().chain(c.sub_items.iter()).map(item_code).collect();
        acc.shape(&(lay.fat32, lay.spc, shape, c.ops.len()));
        if acc.samples.len() < 3 {
            acc.sample(json!({
                "fat32": lay.fat32, "spc": lay.spc, "lfn_buffer": c.lfn_cap,
                "root_items": c.root_items.iter().map(item_name).collect::<Vec<_>>(),
                "sub_items": c.sub_items.iter().map(item_name).collect::<Vec<_>>(),
                "ops_after": c.ops.len(),
            }));
        }
    }
    Ok(())
}

fn item_code(i: &Item) -> u8 {
    match i {
        Item::Short { dir, .. } => {
            if *dir {
                1
            } else {
                0
            }
        }
        Item::Deleted { .. } => 2,
        Item::LfnGood { units, .. } => 3 + (units.len() / 13).min(3) as u8,
        Item::LfnBroken { kind, .. } => 10 + kind.clone() as u8,
        Item::CsumTwin { .. } => 30,
        Item::Orphan { .. } => 31,
        Item::LfnSpelling { .. } => 32,
        Item::Label => 33,
        Item::NamedLabel { .. } => 37,
        Item::FragSoup { .. } => 38,
        Item::End => 35,
        Item::WildDir { .. } => 36,
        Item::Junk(_) => 34,
    }
}

fn item_name(i: &Item) -> String {
    match i {
        Item::Short { name, dir, .. } => format!("{}{}", if *dir { "dir " } else { "file " }, names::display_name(name)),
        Item::Deleted { .. } => "deleted".into(),
        Item::LfnGood { units, name, .. } => format!("lfn({} units)+{}", units.len(), names::display_name(name)),
        Item::LfnBroken { kind, units, .. } => format!("broken-{:?}({} units)", kind, units.len()),
        Item::CsumTwin { .. } => "checksum-twin".into(),
        Item::Orphan { .. } => "orphan-run".into(),
        Item::LfnSpelling { .. } => "lfn-fragment-spelling-a-short-name".into(),
        Item::Label => "label".into(),
        Item::NamedLabel { .. } => "named-label".into(),
        Item::FragSoup { frags, .. } => format!("frag-soup:{}", frags.len()),
        Item::End => "end-marker".into(),
        Item::WildDir { cluster, .. } => format!("wild-dir:{:#x}", cluster),
        Item::Junk(_) => "junk".into(),
    }
}

fn units_strategy() -> BoxedStrategy<Vec<u16>> {
    let u = prop_oneof![
        8 => (0x20u16..0x7F), 2 => (0xA0u16..0x3000), 1 => (0x4E00u16..0x4F00),
        1 => (0xD800u16..0xDC00), 1 => (0xDC00u16..0xE000), 1 => Just(0xFFFFu16), 1 => Just(0xFFFDu16),
    ];
    prop_oneof![
        4 => prop::collection::vec(u.clone(), 1..30),
        2 => prop::collection::vec(u.clone(), 12..15),
        1 => prop::collection::vec(u.clone(), 25..28),
        1 => prop::collection::vec(u.clone(), 200..260),
        1 => Just("ordinary long file name.txt".encode_utf16().collect::<Vec<u16>>()),
    ]
    .boxed()
}

fn broken_kind() -> impl Strategy<Value = Broken> {
    prop_oneof![
        Just(Broken::WrongCsum),
        Just(Broken::Gap),
        Just(Broken::Dup),
        Just(Broken::MissingFirst),
        Just(Broken::MissingLast),
        Just(Broken::Reordered),
        Just(Broken::DeletedBetween),
        Just(Broken::MixedCsum),
        Just(Broken::TwentyFragments),
        Just(Broken::HighOrdinal),
    ]
}

pub fn item_strategy(c17_bias: bool) -> BoxedStrategy<Item> {
    let w_lfn = if c17_bias { 6 } else { 2 };
    let w_broken = if c17_bias { 6 } else { 1 };
    prop_oneof![
        6 => (entry_name(), gen::file_attr(), prop_oneof![Just(0u32), (1u32..3000)], any::<u32>(), prop::bool::weighted(0.2))
            .prop_map(|(name, attr, size, seed, dir)| Item::Short { name, attr, size, seed, dir }),
        3 => (gen::pool_name(), any::<[u8; 20]>()).prop_map(|(name, rest)| Item::Deleted { name, rest }),
        w_lfn => (units_strategy(), entry_name(), prop_oneof![Just(0u32), (1u32..2000)], any::<u32>()).prop_map(|(units, name, size, seed)| Item::LfnGood { units, name, size, seed }),
        w_broken => (broken_kind(), units_strategy(), entry_name()).prop_map(|(kind, units, name)| Item::LfnBroken { kind, units, name }),
        w_broken => gen::pool_name().prop_map(|name| Item::CsumTwin { name }),
        1 => units_strategy().prop_map(|units| Item::Orphan { units }),
        1 => prop_oneof![Just(0x4242u16), Just(0x4343u16)].prop_map(|tail| Item::LfnSpelling { tail }),
        1 => Just(Item::Label),
        2 => prop_oneof![8 => gen::pool_name(), 1 => Just(*b".          "), 1 => Just(*b"..         ")].prop_map(|name| Item::NamedLabel { name }),
        w_broken => (prop::collection::vec((prop_oneof![Just(0x41u8), Just(0x42u8), Just(0x43u8), Just(0x01u8), Just(0x02u8), Just(0x03u8), Just(0x40u8), Just(0xC1u8), Just(0x81u8), Just(0x61u8), Just(0x21u8), Just(0x54u8), Just(0x55u8), Just(0x14u8), any::<u8>()], prop::bool::weighted(0.8), any::<u8>(), any::<u16>()), 1..6), entry_name()).prop_map(|(frags, name)| Item::FragSoup { frags, name }),
        2 => any::<[u8; 32]>().prop_map(Item::Junk),
        1 => Just(Item::End),
        1 => (entry_name(), prop_oneof![Just(1u32), Just(0x0FFF_FFF0u32), Just(0xFFFF_FFF0u32), Just(0xFFFF_FFFCu32), Just(0xFFFF_FFFBu32), Just(0x0FFF_FFFFu32), Just(0xFFF7u32), Just(0xFFFFu32), Just(0x4000_0000u32), (300_000u32..400_000), any::<u32>()]).prop_map(|(name, cluster)| Item::WildDir { name, cluster }),
    ]
    .boxed()
}

pub fn case_strategy(c17_bias: bool) -> BoxedStrategy<DirCase> {
    let usable = gen::usable_strategy().prop_map(|mut u| {
        u.low = u.low.max(120);
        u.free_after = None;
        u
    });
    (
        gen::geom_strategy(FatPick::Any),
        usable,
        prop::collection::vec(item_strategy(c17_bias), 0..14),
        prop::collection::vec(item_strategy(c17_bias), 0..40),
        any::<u8>(),
        any::<u8>(),
        prop_oneof![3 => Just(None), 1 => (0u16..3).prop_map(Some)],
        prop_oneof![3 => Just(780u16), 2 => (0u16..64), 1 => (64u16..800)],
        prop_oneof![2 => Just(vec![]), 1 => prop::collection::vec((0u8..3, any::<u8>(), any::<bool>()), 1..15)],
        prop_oneof![Just(0u8), Just(11u8)],
    )
        .prop_map(|(geom, usable, root_items, sub_items, sub_extra, root_extra, root_pad, lfn_cap, ops, cfg)| DirCase {
            geom,
            usable,
            root_items,
            sub_items,
            sub_extra,
            root_extra,
            root_pad,
            lfn_cap,
            ops,
            cfg,
        })
        .boxed()
}
