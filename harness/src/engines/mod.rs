pub mod c04;
pub mod c05;
pub mod crash;
pub mod dirgen;
pub mod faults;
pub mod fsx;
pub mod mount;
pub mod pure;
