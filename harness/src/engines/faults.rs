//! C11: fault injection at every device-call index of generated histories.

use crate::engines::fsx::{self, FsxCfg};
use crate::fsck::{self, FatView};
use crate::gen::VolBias;
use crate::interp::{self, Case, Interp, Opts, StepInfo};
use crate::ops::{self, Op, PosSel, Profile, Step};
use crate::runner::{is_open_known, Acc, Failure, KnownFinding};
use crate::simdisk::Faults;
use serde_json::json;

pub fn cfg() -> FsxCfg {
    let base = fsx::cfg_for("C03");
    FsxCfg {
        prop: "C11",
        profile: Profile {
            open: 18,
            close: 8,
            flush: 6,
            write: 14,
            read: 10,
            seek: 4,
            delete: 7,
            mkdir: 7,
            find: 6,
            list: 7,
            open_dir: 6,
            change_dir: 1,
            close_dir: 2,
            query: 1,
            check_all: 2,
            remount: 0,
            close_volume: 1,
            open_volume: 1,
            open_root: 2,
            label: 3,
            invalid_names: 0,
            weird_seeks: false,
            ..Profile::mixed()
        },
        bias: VolBias { max_depth: 2, tight: true, full_dirs: true, ..VolBias::default() },
        multi: false,
        steps: (3, 14),
        ..base
    }
}

/// Generator configuration of the C04 fault stage: C04's volumes (multi-partition, tight, slack
/// FAT entries) with short histories rich in reads, lookups and listings between the writes.
pub fn cfg_c04() -> FsxCfg {
    let base = fsx::cfg_for("C04");
    FsxCfg {
        profile: Profile { read: 16, find: 6, list: 6, write: 18, open: 16, close: 5, flush: 4, remount: 0, invalid_names: 0, weird_seeks: false, ..cfg().profile },
        steps: (4, 16),
        ..base
    }
}

fn fail(code: &str, detail: String) -> Failure {
    Failure { sig: format!("C11/{}", code), detail }
}

fn normalise(steps: &[Step]) -> Vec<Step> {
    // dropping a wrapper swallows errors by documented design: always close explicitly here
    steps
        .iter()
        .cloned()
        .map(|mut s| {
            if let Op::Close { f, .. } = s.op {
                s.op = Op::Close { f, drop_only: false };
            }
            // the drop-to-close surfaces for directories/volumes hide the result as well
            if matches!(s.op, Op::CloseDir { .. } | Op::CloseVolume { .. }) && s.surf % 3 == 2 {
                s.surf = 0;
            }
            s
        })
        .collect()
}

#[derive(Clone, Copy, PartialEq, Debug)]
enum Plan {
    Single(u64),
    DeadFrom(u64),
    Multi(u64, u64, u64),
}

fn read_only_kind(info: &StepInfo) -> bool {
    match info.kind {
        "Read" | "Find" | "List" | "ListLfn" | "OpenDir" | "Label" | "CheckAll" => true,
        "Open" => info.mode == Some(0),
        _ => false,
    }
}

/// One execution of the case under a fault plan.
fn run_with_faults(case: &Case, steps: &[Step], plan: Plan, acc: &mut Acc, verbose: bool) -> Result<bool, Failure> {
    let mut it = Interp::new(case, Opts { faults: true, ..Opts::default() });
    let mut f = Faults { scribble: true, ..Faults::default() };
    match plan {
        Plan::Single(i) => {
            f.fail_at.insert(i);
        }
        Plan::DeadFrom(i) => f.dead_from = Some(i),
        Plan::Multi(a, b, c) => {
            f.fail_at.insert(a);
            f.fail_at.insert(b);
            f.fail_at.insert(c);
        }
    }
    it.disk.set_faults(f);
    let mut fired_any = false;
    let mut nontrivial = false;
    let mut i = 0usize;
    let mut queue: Vec<Step> = steps.to_vec();
    let mut extra_budget = 6; // retries inserted
    while i < queue.len() {
        let st = queue[i].clone();
        let fired_before = it.disk.0.borrow().faults_fired.len();
        let dev_before = it.disk.dev_calls();
        let divs_before = it.divs.len();
        // remember where a read started
        let pre_off: Option<(u16, u32)> = match &st.op {
            Op::Read { f, .. } => {
                if it.files.is_empty() {
                    None
                } else {
                    let k = ((*f as usize) * it.files.len()) >> 16;
                    Some((*f, it.files[k].off))
                }
            }
            _ => None,
        };
        let closing: Option<embedded_sdmmc::RawFile> = match &st.op {
            Op::Close { f, .. } if !it.files.is_empty() => Some(it.files[((*f as usize) * it.files.len()) >> 16].h),
            _ => None,
        };
        let info = it.step(i, &st);
        if verbose {
            println!("{}   [dev {}..{}]", it.trace.last().cloned().unwrap_or_default(), dev_before, it.disk.dev_calls());
            let mut inner = it.disk.0.borrow_mut();
            if let Some(t) = inner.trace.as_mut() {
                let v: Vec<String> = t.iter().map(|(_, w, b)| format!("{}{}", if *w { "W" } else { "R" }, b)).collect();
                if !v.is_empty() {
                    println!("      device: {}", v.join(" "));
                }
                t.clear();
            } else {
                inner.trace = Some(Vec::new());
            }
        }
        if let Some(p) = &info.panicked {
            return Err(fail(if info.budget_exceeded { "hang" } else { "panic" }, format!("{:?}: step {} ({}) panicked: {}", plan, i, info.kind, p)));
        }
        let fired: Vec<(u64, u32, bool)> = it.disk.0.borrow().faults_fired[fired_before..].to_vec();
        let fired_now = !fired.is_empty();
        if fired_now {
            fired_any = true;
            let first_dev_of_step = dev_before;
            if fired[0].0 > first_dev_of_step {
                nontrivial = true;
            }
            if info.ok {
                return Err(fail(
                    "error-swallowed",
                    format!(
                        "{:?}: device {} number {} failed during step {} ({}{}) but the call returned success",
                        plan,
                        if fired[0].2 { "write" } else { "read" },
                        fired[0].0,
                        i,
                        info.kind,
                        info.name.as_ref().map(|n| format!(" {:?}", n)).unwrap_or_default()
                    ),
                ));
            }
            acc.class(&format!("fault-in:{}", info.kind));
            // whatever the error variant: the objects this call operated on are "involved"
            if let Some(n) = info.file_node {
                it.nodes[n].tainted = true;
            }
            if matches!(info.kind, "Open" | "Delete" | "Mkdir") && info.mode != Some(0) && info.mode != Some(1) {
                if let (Some(d), Some(name)) = (info.dir_node, info.name.clone()) {
                    it.mark_uncertain(d, &name);
                }
            }
            if let (Some(h), Plan::Single(_)) = (closing, plan) {
                // close removes the handle even if the flush failed
                match it.api().length(h, crate::api::Surf::Raw) {
                    Err(e) if interp::ek(&e) == "BadHandle" => {}
                    other => {
                        return Err(fail("handle-survives-failed-close", format!("after a failed close_file the handle still answers file_length with {:?}", other.map_err(|e| interp::ek(&e)))));
                    }
                }
            }
            // transient fault on a read-only call: the retry must give the model's answer
            if matches!(plan, Plan::Single(_)) && read_only_kind(&info) && extra_budget > 0 {
                extra_budget -= 1;
                let mut retry = Vec::new();
                if let Some((fsel, off)) = pre_off {
                    retry.push(Step { op: Op::SeekStart { f: fsel, to: PosSel::Abs(off) }, surf: 0, tick: 1 });
                }
                let mut again = st.clone();
                again.tick = 1;
                retry.push(again);
                // OpenDir/Open that now succeed add a handle; that is fine for the rest of the history
                for (k, r) in retry.into_iter().enumerate() {
                    queue.insert(i + 1 + k, r);
                }
                acc.class("retry-after-transient-fault");
            }
        }
        // any model disagreement after a fault has fired is the fault's doing
        if it.divs.len() > divs_before {
            let d = it.divs[divs_before].clone();
            if fired_any {
                if matches!(plan, Plan::DeadFrom(_)) {
                    // with a dead device nothing is expected to work; only success/panic matter
                    it.divs.truncate(divs_before);
                } else {
                    return Err(fail(
                        "wrong-after-fault",
                        format!("{:?}: after the injected fault, step {} ({}): {} [{}/{}]", plan, i, info.kind, d.detail, d.prop, d.code),
                    ));
                }
            } else {
                // disagreement before any fault: not this property's business
                acc.desync += 1;
                return Ok(false);
            }
        }
        i += 1;
    }
    if matches!(plan, Plan::DeadFrom(_)) {
        return Ok(nontrivial);
    }
    if !fired_any {
        return Ok(false);
    }
    // every handle can still be closed
    it.disk.clear_faults();
    let mut info = StepInfo { kind: "CloseAll", idx: queue.len(), ..Default::default() };
    let divs_before = it.divs.len();
    it.opts.faults = false;
    it.close_all(&mut info);
    if let Some(p) = &info.panicked {
        return Err(fail("panic", format!("{:?}: closing everything after the fault panicked: {}", plan, p)));
    }
    if it.divs.len() > divs_before {
        let d = &it.divs[divs_before];
        return Err(fail("handle-unusable-after-fault", format!("{:?}: {}", plan, d.detail)));
    }
    // no directory may hold two live entries with the same name; untainted files intact on the medium
    for pv in &it.pvols {
        let lay = fsck::layout_of(&it.disk.snapshot(), pv.slot).map_err(|e| fail("layout-destroyed", e))?;
        let dup = it.disk.with_img(|img| {
            let fv = FatView::new(img, &lay);
            let w = fsck::walk(img, &fv, &[]);
            fn dups(n: &fsck::FNode) -> Option<String> {
                if let Some(l) = &n.listing {
                    let mut seen = std::collections::HashSet::new();
                    for s in &l.slots {
                        if s.kind == fsck::SlotKind::Live && !seen.insert(s.name()) {
                            return Some(format!("{} holds {:?} twice", n.path, fsck::name_to_string(&s.raw[0..11])));
                        }
                    }
                }
                for c in &n.children {
                    if let Some(x) = dups(c) {
                        return Some(x);
                    }
                }
                None
            }
            dups(&w.root)
        });
        if let Some(d) = dup {
            return Err(fail("duplicate-name-after-fault", format!("{:?}: {}", plan, d)));
        }
    }
    // files not involved in the failed call: contents through a fresh mount of the medium
    let mut it2 = it;
    // nodes below an uncertain name are not comparable
    let unc = it2.uncertain.clone();
    for (d, n) in unc {
        if let Some(c) = it2.child_by_name(d, &n) {
            it2.nodes[c].tainted = true;
        }
    }
    let d = interp::verify_via_fresh_mount(&it2, "C11");
    if let Some(d) = d.first() {
        return Err(fail("uninvolved-file-damaged", format!("{:?}: {}", plan, d.detail)));
    }
    Ok(nontrivial)
}

/// "Never wedges the API", for users of the RAII wrappers: `Volume::close(self)` consumes the only
/// handle such a user holds. Every device call of that close is made to fail in turn; the call must
/// report the failure, and the volume must be openable again afterwards.
fn run_volume_close_faults(case: &Case, steps: &[Step], acc: &mut Acc, verbose: bool) -> Result<u64, Failure> {
    use crate::api::Surf;
    // reference run: where do the device calls of the closes lie?
    let run_to_close = |it: &mut Interp| -> bool {
        for (i, st) in steps.iter().enumerate() {
            let info = it.step(i, st);
            if info.panicked.is_some() || !it.divs.is_empty() {
                return false;
            }
        }
        let mut info = StepInfo { kind: "CloseAll", idx: steps.len(), ..Default::default() };
        it.close_files_and_dirs(&mut info);
        info.panicked.is_none() && it.divs.is_empty()
    };
    let (d1, d2) = {
        let mut it = Interp::new(case, Opts::default());
        if !run_to_close(&mut it) {
            return Ok(0);
        }
        let d1 = it.disk.dev_calls();
        let vols: Vec<_> = it.vols.iter().map(|v| v.h).collect();
        for h in vols {
            let _ = it.api().close_volume(h, Surf::Raii);
        }
        (d1, it.disk.dev_calls())
    };
    let mut runs = 0u64;
    for j in d1..d2 {
        runs += 1;
        let mut it = Interp::new(case, Opts { faults: true, ..Opts::default() });
        let mut f = Faults { scribble: true, ..Faults::default() };
        f.fail_at.insert(j);
        it.disk.set_faults(f);
        if !run_to_close(&mut it) {
            continue;
        }
        let vols: Vec<(embedded_sdmmc::RawVolume, usize)> = it.vols.iter().map(|v| (v.h, v.slot)).collect();
        for (h, slot) in vols {
            let fired_before = it.disk.0.borrow().faults_fired.len();
            let r = std::panic::catch_unwind(std::panic::AssertUnwindSafe(|| it.api().close_volume(h, Surf::Raii)));
            let r = match r {
                Ok(r) => r,
                Err(p) => return Err(fail("panic", format!("Volume::close() with device call {} failing panicked: {}", j, interp::panic_msg(&p).0))),
            };
            let fired = it.disk.0.borrow().faults_fired.len() > fired_before;
            if verbose {
                println!("[fault at device call {}] Volume::close() of slot {} -> {:?} (fault fired: {})", j, slot, r.as_ref().map_err(interp::ek), fired);
            }
            if !fired {
                continue;
            }
            acc.class("fault-in:Volume::close");
            if r.is_ok() {
                return Err(fail("error-swallowed", format!("device call {} failed during Volume::close() of the volume in slot {} but the call returned success", j, slot)));
            }
            // the wrapper is gone; the volume must not stay registered for ever
            match it.api().open_volume(slot, Surf::Raw) {
                Ok(h2) => {
                    let _ = it.api().close_volume(h2, Surf::Raw);
                }
                Err(e) if interp::ek(&e) == "DeviceError" => {}
                Err(e) => {
                    return Err(fail(
                        "volume-wedged-after-failed-close",
                        format!("Volume::close() of slot {} failed with a device error (device call {}) and consumed the handle; opening the volume again answers {:?}", slot, j, interp::ek(&e)),
                    ));
                }
            }
        }
    }
    Ok(runs)
}

pub fn run_case(case: &Case, acc: &mut Acc, known: &[KnownFinding], verbose: bool, thorough: bool) -> Result<(), Failure> {
    let mut steps: Vec<Step> = ops::prologue();
    steps.extend(normalise(&case.steps));
    // fault-free reference run
    let n_dev = {
        let mut it = Interp::new(case, Opts::default());
        for (i, st) in steps.iter().enumerate() {
            let info = it.step(i, st);
            if info.panicked.is_some() || !it.divs.is_empty() {
                acc.desync += 1;
                if let Some(d) = it.divs.first() {
                    acc.class(&format!("desync:{}/{}", d.prop, d.code));
                }
                return Ok(());
            }
        }
        it.disk.dev_calls()
    };
    let cap: u64 = if thorough { 4000 } else { 400 };
    let stride = ((n_dev + cap - 1) / cap).max(1);
    let mut plans: Vec<Plan> = (0..n_dev).step_by(stride as usize).map(Plan::Single).collect();
    // dead-from-i on a thinner grid, and three multi-fault sets derived from the case itself
    for i in (0..n_dev).step_by((stride * 6) as usize) {
        plans.push(Plan::DeadFrom(i));
    }
    if n_dev > 6 {
        let s = case.clock0 as u64;
        for k in 0..3u64 {
            let a = (s.wrapping_mul(2654435761).wrapping_add(k * 977)) % n_dev;
            let b = (s.wrapping_mul(40503).wrapping_add(k * 131 + 7)) % n_dev;
            let c = (s.wrapping_add(k * 53 + 3)) % n_dev;
            plans.push(Plan::Multi(a, b, c));
        }
    }
    let mut runs = 0u64;
    let mut nt = 0u64;
    let geom = fsx::geometry_class(case);
    for p in plans {
        runs += 1;
        match run_with_faults(case, &steps, p, acc, verbose) {
            Ok(nontrivial) => {
                if nontrivial {
                    nt += 1;
                    acc.shape(&(geom.clone(), case.steps.iter().map(|s| s.op.kind()).collect::<Vec<_>>(), format!("{:?}", p)));
                }
                acc.class(match p {
                    Plan::Single(_) => "plan:single-transient",
                    Plan::DeadFrom(_) => "plan:dead-from",
                    Plan::Multi(..) => "plan:multi",
                });
            }
            Err(f) => {
                if is_open_known(known, "C11", &f.sig) {
                    acc.known(&f.sig);
                    continue;
                }
                if verbose {
                    println!("FAIL {}: {}", f.sig, f.detail);
                }
                acc.evaluations += runs;
                return Err(f);
            }
        }
    }
    match run_volume_close_faults(case, &steps, acc, verbose) {
        Ok(n) => {
            runs += n;
            acc.class_n("volume-close-fault-runs", n);
        }
        Err(f) => {
            if !is_open_known(known, "C11", &f.sig) {
                if verbose {
                    println!("FAIL {}: {}", f.sig, f.detail);
                }
                acc.evaluations += runs;
                return Err(f);
            }
            acc.known(&f.sig);
        }
    }
    acc.evaluations += runs;
    acc.class_n("fault-runs", runs);
    acc.class_n("device-calls-in-reference-runs", n_dev);
    for g in &geom {
        acc.class(&format!("geom:{}", g));
    }
    if nt > 0 && acc.samples.len() < 3 {
        let mut s = fsx::abbreviate(case);
        s["device_calls"] = json!(n_dev);
        s["fault_runs"] = json!(runs);
        acc.sample(s);
    }
    Ok(())
}

/// C04 with the fault dimension: the write-log classifier of `engines::c04` applied to histories in
/// which one device call fails (reads scribbled). Rule set per call, see `c04::Rules`:
/// everything while the medium is consistent (before the fault, and after it when the faulted call
/// was a read-only one), the reduced set for the faulted call itself, and the unconditional region
/// rules once a mutating call was cut short.
pub fn run_case_c04(cfg: &FsxCfg, case: &Case, acc: &mut Acc, verbose: bool, thorough: bool) -> Result<(), Failure> {
    use crate::engines::c04::{self, Rules};
    let mut steps: Vec<Step> = ops::prologue();
    steps.extend(normalise(&case.steps));
    // fault-free reference run: device-call range and kind of every step
    let mut spans: Vec<(u64, u64, bool)> = Vec::new();
    {
        let mut it = Interp::new(case, Opts::default());
        for (i, st) in steps.iter().enumerate() {
            let d0 = it.disk.dev_calls();
            let info = it.step(i, st);
            if info.panicked.is_some() || !it.divs.is_empty() {
                acc.desync += 1;
                return Ok(());
            }
            spans.push((d0, it.disk.dev_calls(), read_only_kind(&info)));
        }
    }
    // fault positions: up to 4 per read-only call, 2 per mutating call, thinned to a cap
    let mut pos: Vec<u64> = Vec::new();
    for (a, b, ro) in &spans {
        let n = b - a;
        if n == 0 {
            continue;
        }
        let k = if *ro { 4 } else { 2 };
        for j in 0..k.min(n) {
            pos.push(a + j * n / k.min(n));
        }
    }
    pos.dedup();
    let cap = if thorough { 160 } else { 24 };
    if pos.len() > cap {
        let stride = (pos.len() + cap - 1) / cap;
        pos = pos.into_iter().step_by(stride).collect();
    }
    let geom = fsx::geometry_class(case);
    let mut runs = 0u64;
    for p in pos {
        runs += 1;
        let mut it = Interp::new(case, Opts { faults: true, ..Opts::default() });
        let ctx = fsx::make_ctx(cfg, &it);
        let mut f = Faults { scribble: true, ..Faults::default() };
        f.fail_at.insert(p);
        it.disk.set_faults(f);
        let mut consistent = true;
        let mut fired_any = false;
        let mut full_after_fault = 0u32;
        for (i, st) in steps.iter().enumerate() {
            let fired_before = it.disk.0.borrow().faults_fired.len();
            let divs_before = it.divs.len();
            let info = it.step(i, st);
            if verbose {
                println!("[fault at device call {}] {}", p, it.trace.last().cloned().unwrap_or_default());
                let mut inner = it.disk.0.borrow_mut();
                if let Some(t) = inner.trace.as_mut() {
                    let v: Vec<String> = t.iter().map(|(_, w, b)| format!("{}{}", if *w { "W" } else { "R" }, b)).collect();
                    if !v.is_empty() {
                        println!("      device: {}", v.join(" "));
                    }
                    t.clear();
                } else {
                    inner.trace = Some(Vec::new());
                }
            }
            if info.panicked.is_some() {
                // a panic under a device fault is C11's finding, not a write-placement one
                acc.class("c04-faults:run-ended-by-panic");
                break;
            }
            let fired_now = it.disk.0.borrow().faults_fired.len() > fired_before;
            let target_tainted = info.file_node.map(|n| it.nodes[n].tainted).unwrap_or(false)
                || match (info.dir_node, info.name.as_ref()) {
                    (Some(d), Some(n)) => it.is_uncertain(d, n),
                    _ => false,
                };
            let rules = if fired_now {
                Rules::FaultedCall
            } else if !consistent {
                Rules::RegionOnly
            } else if target_tainted {
                Rules::FaultedCall
            } else {
                Rules::Full
            };
            if !info.skipped {
                if let Some(mut fl) = c04::check_call_with(&it, &ctx, &info, rules) {
                    fl.detail = format!("with device call {} failing ({}): {} [rule set {:?}]", p, if fired_any || fired_now { "fault already fired" } else { "fault not yet fired" }, fl.detail, rules);
                    if verbose {
                        println!("FAIL {}: {}", fl.sig, fl.detail);
                    }
                    acc.evaluations += runs;
                    return Err(fl);
                }
                if fired_any && rules == Rules::Full && info.log_end > info.log_start {
                    full_after_fault += 1;
                }
            }
            if fired_now {
                fired_any = true;
                acc.class(&format!("c04-faults:fault-in:{}", info.kind));
                if let Some(n) = info.file_node {
                    it.nodes[n].tainted = true;
                }
                if !read_only_kind(&info) {
                    consistent = false;
                    if matches!(info.kind, "Open" | "Delete" | "Mkdir") {
                        if let (Some(d), Some(name)) = (info.dir_node, info.name.clone()) {
                            it.mark_uncertain(d, &name);
                        }
                    }
                }
            }
            if it.divs.len() > divs_before {
                // the model lost track (after a fault that is expected): stop judging this run
                acc.class("c04-faults:run-ended-by-divergence");
                break;
            }
        }
        if fired_any {
            acc.class("c04-faults:runs-with-fault-fired");
            if full_after_fault > 0 {
                acc.class("c04-faults:writing-call-judged-by-full-rules-after-a-read-fault");
                acc.shape(&("c04-faults", geom.clone(), case.steps.iter().map(|s| s.op.kind()).collect::<Vec<_>>(), p));
            }
        }
    }
    acc.evaluations += runs;
    acc.class_n("c04-faults:fault-runs", runs);
    Ok(())
}
