//! C04: classification of every device write of a call (filled in below).
use crate::engines::fsx::Ctx;
use crate::interp::{Interp, StepInfo};
use crate::runner::Failure;

pub fn check_call(_it: &Interp, _ctx: &Ctx, _info: &StepInfo) -> Option<Failure> {
    None
}
