//! C04: every device write of a call is diffed against its pre-image and
//! classified by region and ownership, using the independently parsed layout.

use crate::engines::fsx::Ctx;
use crate::fsck::{self, FatVal, FatView};
use crate::interp::{Interp, StepInfo};
use crate::mkfs::Layout;
use crate::names::{self, RefName};
use crate::runner::Failure;
use crate::simdisk::{Blk, Image, Img};
use std::collections::{BTreeSet, HashMap};

struct Overlay<'a> {
    base: &'a Image,
    over: HashMap<u32, Blk>,
}

impl<'a> Img for Overlay<'a> {
    fn rd(&self, b: u32) -> Blk {
        match self.over.get(&b) {
            Some(x) => *x,
            None => self.base.rd(b),
        }
    }
    fn nblocks(&self) -> u32 {
        self.base.num_blocks
    }
}

fn fail(code: &str, detail: String) -> Failure {
    Failure { sig: format!("C04/{}", code), detail }
}

#[derive(Clone, Debug, PartialEq)]
enum Owner {
    File(String),
    Dir(String),
}

fn entry_at(b: &Blk, lay: &Layout, k: u32) -> u32 {
    let es = lay.entry_size() as usize;
    let o = k as usize * es;
    if lay.fat32 {
        u32::from_le_bytes([b[o], b[o + 1], b[o + 2], b[o + 3]])
    } else {
        u16::from_le_bytes([b[o], b[o + 1]]) as u32
    }
}

/// How much of the rule set applies to a call.
#[derive(Clone, Copy, PartialEq, Debug)]
pub enum Rules {
    /// fault-free call on a consistent volume: everything
    Full,
    /// the call during which an injected device fault fired, on a volume that was consistent
    /// before it: region rules and "other objects untouched"; how far the call got before the
    /// fault is unknown, so its own data range and its own directory slot are not judged
    FaultedCall,
    /// any call after a mutating call was cut short by a fault (medium possibly inconsistent with
    /// the handles' in-memory state): only the region rules, which hold unconditionally
    RegionOnly,
}

pub fn check_call(it: &Interp, ctx: &Ctx, info: &StepInfo) -> Option<Failure> {
    check_call_with(it, ctx, info, Rules::Full)
}

pub fn check_call_with(it: &Interp, ctx: &Ctx, info: &StepInfo, rules: Rules) -> Option<Failure> {
    if info.log_end <= info.log_start {
        return None;
    }
    let inner = it.disk.0.borrow();
    let log = &inner.log[info.log_start..info.log_end];
    // pre-image = current image with the first old value of every block written in this call
    let mut pre = Overlay { base: &inner.img, over: HashMap::new() };
    for r in log {
        pre.over.entry(r.block).or_insert(*r.old);
    }
    let mut cur = Overlay { base: &inner.img, over: pre.over.clone() };
    let kind = info.kind;
    let what = |r: &crate::simdisk::WriteRec| format!("{} (step {}) wrote block {}", kind, info.idx, r.block);

    // which volume is the call about?
    let target_slot = info.slot;
    // out-of-range accesses recorded by the device
    if let Some((b, w)) = inner.oob.last() {
        if *w {
            return Some(fail("write-beyond-device", format!("{} tried to write block {} beyond the device", kind, b)));
        }
    }
    // per volume pre-call knowledge, computed lazily
    struct VolPre {
        owners: HashMap<u32, Owner>,
        allowed_chain: BTreeSet<u32>,
        target_file_chain: Vec<u32>,
        target_slot_loc: Option<(u32, u32)>,
        target_path: Option<String>,
    }
    let mut volpre: HashMap<usize, VolPre> = HashMap::new();
    let pending_post = it.pending();
    let mut allocated_in_call: BTreeSet<(usize, u32)> = BTreeSet::new();
    let mut changed_slots: BTreeSet<(u32, u32)> = BTreeSet::new();
    let mut slot_changes: Vec<(u32, u32, [u8; 32], [u8; 32])> = Vec::new();

    for r in log {
        if r.old == r.new {
            // rewriting identical contents changes nothing; still must be inside the volume
        }
        let b = r.block;
        if b == 0 {
            return Some(fail("mbr-written", what(r)));
        }
        let Some(vt) = ctx.vols.iter().find(|v| b >= v.lay.part_start && b < v.lay.part_start + v.lay.part_len) else {
            return Some(fail("outside-any-volume", format!("{}, which belongs to no FAT volume (gap, foreign partition or guard area)", what(r))));
        };
        let lay = &vt.lay;
        if let Some(ts) = target_slot {
            if ts != vt.slot {
                return Some(fail("other-volume-written", format!("{}, which lies in the volume of slot {} while the call operates on slot {}", what(r), vt.slot, ts)));
            }
        }
        // lazily compute the pre-call view of this volume
        if !volpre.contains_key(&vt.slot) {
            let fv = FatView::new(&pre, lay);
            // pending state of open files before the call: post-call state, except for the target file
            let mut pend: Vec<fsck::Pending> = pending_post.iter().filter(|(s, _)| *s == vt.slot).map(|(_, p)| p.clone()).collect();
            if let Some(fp) = &info.file_pre {
                for p in pend.iter_mut() {
                    if p.entry_block == fp.entry_block && p.entry_off == fp.entry_off {
                        p.first = fp.first;
                        p.size = fp.size;
                    }
                }
            }
            if info.created {
                // the file did not exist before the call
                if let Some(fp) = &info.file_post {
                    pend.retain(|p| !(p.entry_block == fp.entry_block && p.entry_off == fp.entry_off));
                }
                if let Some(n) = info.file_node {
                    if let Some(of) = it.files.iter().find(|f| f.node == n) {
                        if let Some(st) = it.api().file_state(of.h) {
                            pend.retain(|p| !(p.entry_block == st.entry_block && p.entry_off == st.entry_off));
                        }
                    }
                }
            }
            let w = fsck::walk(&pre, &fv, &pend);
            let mut owners: HashMap<u32, Owner> = HashMap::new();
            fn collect(n: &fsck::FNode, out: &mut HashMap<u32, Owner>) {
                for c in &n.chain {
                    out.insert(*c, if n.is_dir { Owner::Dir(n.path.clone()) } else { Owner::File(n.path.clone()) });
                }
                for k in &n.children {
                    collect(k, out);
                }
            }
            collect(&w.root, &mut owners);
            // chains of open files whose entry is not on the medium yet are found through `pending`;
            // but a file that has clusters and no entry pointing at them needs its own walk
            let mut allowed_chain: BTreeSet<u32> = BTreeSet::new();
            let mut target_file_chain: Vec<u32> = Vec::new();
            let mut target_slot_loc = None;
            let mut target_path = None;
            // target file of Write / Flush / Close
            if let Some(fp) = &info.file_pre {
                target_slot_loc = Some((fp.entry_block, fp.entry_off));
                if fp.first >= 2 {
                    let (ch, _) = fsck::chain(&fv, fp.first);
                    // a chain whose first entry is still free (never happens pre-call) is ignored
                    if fv.val(fp.first) != FatVal::Free {
                        for c in &ch {
                            allowed_chain.insert(*c);
                            owners.entry(*c).or_insert(Owner::File("<open file>".into()));
                        }
                        target_file_chain = ch;
                    }
                }
                if let Some(n) = info.file_node {
                    target_path = Some(it.path_of(n));
                }
            }
            // target named by (directory, name): Open (truncate/create), Delete, Mkdir
            if let (Some(d), Some(name)) = (info.dir_node, info.name.as_ref()) {
                let dpath = it.path_of(d);
                if let Some(dn) = fsck::find_path(&w.root, &dpath) {
                    // the directory's own chain may be extended by the call
                    for c in &dn.chain {
                        allowed_chain.insert(*c);
                    }
                    if let RefName::Valid(n11) = names::ref_parse(name) {
                        if let Some(l) = &dn.listing {
                            if let Some(s) = l.slots.iter().find(|s| s.kind == fsck::SlotKind::Live && s.name() == n11) {
                                target_slot_loc = Some((s.block, s.off));
                            }
                        }
                        let child = dn.children.iter().find(|c| c.slot.as_ref().map(|s| s.name()) == Some(n11));
                        if let Some(c) = child {
                            if !c.is_dir {
                                for x in &c.chain {
                                    allowed_chain.insert(*x);
                                }
                                target_file_chain = c.chain.clone();
                                target_path = Some(c.path.clone());
                            }
                        }
                    }
                }
            }
            volpre.insert(vt.slot, VolPre { owners, allowed_chain, target_file_chain, target_slot_loc, target_path });
        }
        let vp = volpre.get(&vt.slot).unwrap();
        let rel = b - lay.part_start;
        let old = &*r.old;
        let new = &*r.new;
        if rel == 0 {
            return Some(fail("boot-sector-written", what(r)));
        }
        if rel < lay.reserved {
            if lay.fat32 && rel == lay.fsinfo_sector {
                if !matches!(kind, "Flush" | "Close" | "CloseVolume" | "Remount" | "CloseAll") && !info.closed_file {
                    return Some(fail("fsinfo-written-by-wrong-call", what(r)));
                }
                for i in 0..512 {
                    if old[i] != new[i] && !(488..496).contains(&i) {
                        return Some(fail("fsinfo-other-bytes-changed", format!("{}: byte {} of the information sector changed", what(r), i)));
                    }
                }
            } else {
                return Some(fail("reserved-sector-written", what(r)));
            }
            cur.over.insert(b, *new);
            continue;
        }
        let fat_end = lay.reserved + lay.num_fats * lay.fat_sectors;
        if rel < fat_end {
            let copy = (rel - lay.reserved) / lay.fat_sectors;
            let s = (rel - lay.reserved) % lay.fat_sectors;
            if copy == 0 {
                let eps = 512 / lay.entry_size();
                for k in 0..eps {
                    let (o, n) = (entry_at(old, lay, k), entry_at(new, lay, k));
                    if o == n {
                        continue;
                    }
                    let cl = s * eps + k;
                    if cl < 2 {
                        return Some(fail("fat-reserved-entry-changed", format!("{}: FAT entry {} changed from {:#x} to {:#x}", what(r), cl, o, n)));
                    }
                    if cl >= lay.clusters + 2 {
                        return Some(fail("fat-slack-entry-changed", format!("{}: FAT entry {} beyond the last cluster ({}) changed from {:#x} to {:#x}", what(r), cl, lay.clusters + 1, o, n)));
                    }
                    if lay.fat32 && (o ^ n) & 0xF000_0000 != 0 {
                        return Some(fail("fat32-reserved-bits-changed", format!("{}: high nibble of FAT entry {} changed ({:#010x} -> {:#010x})", what(r), cl, o, n)));
                    }
                    let was_free = fsck::classify(lay, o) == FatVal::Free;
                    if rules == Rules::RegionOnly {
                        continue;
                    }
                    if was_free {
                        allocated_in_call.insert((vt.slot, cl));
                    } else if !(vp.allowed_chain.contains(&cl) || allocated_in_call.contains(&(vt.slot, cl))) {
                        return Some(fail(
                            "fat-entry-of-foreign-chain",
                            format!("{}: FAT entry {} ({:#x} -> {:#x}) belongs to neither a free cluster nor the chain the call operates on (owner before the call: {:?})", what(r), cl, o, n, vp.owners.get(&cl)),
                        ));
                    }
                }
            } else {
                let primary = cur.rd(lay.fat_start(0) + s);
                if rules == Rules::Full && *new != primary {
                    return Some(fail("fat-copy-differs", format!("{}: FAT copy {} sector {} was written with contents that differ from the first copy", what(r), copy, s)));
                }
            }
            cur.over.insert(b, *new);
            continue;
        }
        // directory-slot diff helper
        let mut dir_block_diff = |blk: u32| {
            for i in 0..16usize {
                let (o, n) = (&old[i * 32..i * 32 + 32], &new[i * 32..i * 32 + 32]);
                if o != n {
                    changed_slots.insert((blk, i as u32 * 32));
                    slot_changes.push((blk, i as u32 * 32, o.try_into().unwrap(), n.try_into().unwrap()));
                }
            }
        };
        if rel < lay.first_data {
            // FAT16 root directory region
            dir_block_diff(b);
            cur.over.insert(b, *new);
            continue;
        }
        let cl = (rel - lay.first_data) / lay.spc + 2;
        if cl >= lay.clusters + 2 {
            return Some(fail("past-last-cluster", format!("{}: the block lies beyond the last cluster ({}) of the volume", what(r), lay.clusters + 1)));
        }
        if rules == Rules::RegionOnly {
            cur.over.insert(b, *new);
            continue;
        }
        let fvp = FatView::new(&pre, lay);
        let pre_val = fvp.val(cl);
        if allocated_in_call.contains(&(vt.slot, cl)) {
            // newly allocated by this call: any contents
        } else if pre_val == FatVal::Free {
            return Some(fail("free-cluster-written", format!("{}: cluster {} was free before the call and was not allocated by it", what(r), cl)));
        } else if pre_val == FatVal::Bad {
            return Some(fail("bad-cluster-written", format!("{}: cluster {} is marked bad", what(r), cl)));
        } else {
            match vp.owners.get(&cl) {
                Some(Owner::Dir(_)) => dir_block_diff(b),
                Some(Owner::File(p)) => {
                    // must be the file being written, and only inside the requested range
                    let idx = vp.target_file_chain.iter().position(|c| *c == cl);
                    if rules == Rules::FaultedCall && idx.is_some() {
                        // the target file's own clusters: how much was transferred before the fault is unknown
                        cur.over.insert(b, *new);
                        continue;
                    }
                    let (Some(idx), Some((woff, _n, accepted))) = (idx, info.write) else {
                        if old != new {
                            return Some(fail("foreign-file-data-written", format!("{}: cluster {} belongs to {} which this call must not change (target {:?})", what(r), cl, p, vp.target_path)));
                        }
                        cur.over.insert(b, *new);
                        continue;
                    };
                    let blk_in_cluster = (rel - lay.first_data) % lay.spc;
                    let file_pos = idx as u64 * lay.cluster_bytes() as u64 + blk_in_cluster as u64 * 512;
                    for i in 0..512usize {
                        if old[i] != new[i] {
                            let p = file_pos + i as u64;
                            if p < woff as u64 || p >= woff as u64 + accepted as u64 {
                                return Some(fail(
                                    "data-outside-written-range",
                                    format!("{}: file byte {} changed ({:#04x} -> {:#04x}) but the call wrote [{}, {})", what(r), p, old[i], new[i], woff, woff as u64 + accepted as u64),
                                ));
                            }
                        }
                    }
                }
                None => {
                    if old != new {
                        return Some(fail("lost-cluster-written", format!("{}: cluster {} is allocated but belongs to no file or directory", what(r), cl)));
                    }
                }
            }
        }
        cur.over.insert(b, *new);
    }
    // directory slots: at most one slot per call, and it must be the call's own
    if rules != Rules::Full {
        return None;
    }
    if !changed_slots.is_empty() {
        if kind == "Write" || kind == "Read" {
            let (b, o) = changed_slots.iter().next().unwrap();
            return Some(fail("write-changed-directory", format!("{} changed the directory slot at block {} offset {}", kind, b, o)));
        }
        if changed_slots.len() > 1 {
            return Some(fail("several-directory-slots-changed", format!("{} changed {} directory slots: {:?}", kind, changed_slots.len(), changed_slots)));
        }
        let (b, o) = *changed_slots.iter().next().unwrap();
        let first = slot_changes.iter().find(|c| c.0 == b && c.1 == o).unwrap();
        let was_free = first.2[0] == 0x00 || first.2[0] == 0xE5;
        let target = volpre.values().find_map(|v| v.target_slot_loc);
        let owns = target == Some((b, o));
        let claims = was_free && (info.created || info.mkdir || (kind == "Open" || kind == "Mkdir"));
        if !(owns || claims) {
            return Some(fail(
                "foreign-directory-slot-changed",
                format!("{} changed the directory slot at block {} offset {} ({:02x?} -> {:02x?}); its own slot is {:?}", kind, b, o, first.2, slot_changes.last().unwrap().3, target),
            ));
        }
        if kind == "Delete" {
            let last = slot_changes.iter().rev().find(|c| c.0 == b && c.1 == o).unwrap();
            if first.2[1..] != last.3[1..] || last.3[0] != 0xE5 {
                return Some(fail("delete-changed-more-than-marker", format!("Delete rewrote the slot {:02x?} as {:02x?}", first.2, last.3)));
            }
        }
    }
    None
}
