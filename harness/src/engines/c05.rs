//! C05: out-of-space errors must not be premature.
use crate::engines::fsx::Ctx;
use crate::interp::{Interp, StepInfo};
use crate::runner::Failure;

pub fn check_space_error(_it: &Interp, _ctx: &Ctx, _info: &StepInfo) -> Option<Failure> {
    None
}
