//! C05(b): an out-of-space error must not be premature: it may only be
//! returned when the request really does not fit in the free clusters counted
//! by an independent FAT scan taken just before the call.

use crate::engines::fsx::Ctx;
use crate::fsck::{self, DirLoc, FatView, SlotKind};
use crate::interp::{Interp, StepInfo};
use crate::runner::Failure;

fn fail(code: &str, detail: String) -> Failure {
    Failure {
        sig: format!("C05/{}", code),
        detail,
    }
}

/// Does the directory (by model node) have an unused slot inside its current extent?
fn dir_has_free_slot(it: &Interp, ctx: &Ctx, dir: usize) -> Option<bool> {
    let slot = it.nodes[dir].slot;
    let vt = ctx.vols.iter().find(|v| v.slot == slot)?;
    let path = it.path_of(dir);
    it.disk.with_img(|img| {
        let fv = FatView::new(img, &vt.lay);
        let l = if path == "/" {
            fsck::list_dir(img, &fv, DirLoc::Root)
        } else {
            let w = fsck::walk(img, &fv, &[]);
            let n = fsck::find_path(&w.root, &path)?;
            fsck::list_dir(img, &fv, DirLoc::Cluster(n.first))
        };
        Some(l.end_at.is_some() || l.slots.iter().any(|s| s.kind == SlotKind::Deleted))
    })
}

pub fn check_space_error(it: &Interp, ctx: &Ctx, info: &StepInfo) -> Option<Failure> {
    if !info.space_error {
        return None;
    }
    let slot = info.slot?;
    let vt = ctx.vols.iter().find(|v| v.slot == slot)?;
    let free_before = info.free_before?;
    let free_after = it.free_count(slot)?;
    let cb = vt.lay.cluster_bytes() as u64;
    match info.kind {
        "Write" => {
            let (off, n, accepted) = info.write?;
            // clusters the file had before the call
            let st = info.file_post.as_ref()?;
            let chain_now = it.disk.with_img(|img| {
                let fv = FatView::new(img, &vt.lay);
                if st.first >= 2 {
                    fsck::chain(&fv, st.first).0.len() as u64
                } else {
                    0
                }
            });
            let allocated = free_before.saturating_sub(free_after) as u64;
            let chain_before = chain_now.saturating_sub(allocated);
            let need_total = (off as u64 + n as u64 + cb - 1) / cb;
            // a zero-length write still needs a first cluster in this crate
            let need_total = need_total.max(1);
            let need_new = need_total.saturating_sub(chain_before);
            if need_new <= free_before as u64 {
                return Some(fail(
                    "premature-disk-full",
                    format!(
                        "write of {} bytes at offset {} needed {} new cluster(s) and {} were free, but it failed with {}",
                        n,
                        off,
                        need_new,
                        free_before,
                        info.err.clone().unwrap_or_default()
                    ),
                ));
            }
            // it did not fit: everything that was free must have been used, and the
            // accepted prefix must fill the chain completely
            if free_after != 0 {
                return Some(fail(
                    "space-left-after-disk-full",
                    format!("write failed with {} but {} clusters are still free", info.err.clone().unwrap_or_default(), free_after),
                ));
            }
            let end = off as u64 + accepted as u64;
            if end != chain_now * cb && chain_now > 0 {
                return Some(fail(
                    "accepted-less-than-capacity",
                    format!("write accepted bytes up to offset {} but the file's {} clusters hold {}", end, chain_now, chain_now * cb),
                ));
            }
            None
        }
        "Open" | "Mkdir" => {
            let dir = info.dir_node?;
            let is_root16 = !vt.lay.fat32 && it.nodes[dir].parent.is_none();
            let has_slot = dir_has_free_slot(it, ctx, dir)?;
            let mut need: u32 = 0;
            if !has_slot {
                if is_root16 {
                    return None; // fixed-size root directory is full: legitimate
                }
                need += 1;
            }
            if info.kind == "Mkdir" {
                need += 1;
            }
            if need <= free_before {
                return Some(fail(
                    "premature-not-enough-space",
                    format!(
                        "{} {:?} needed {} cluster(s), {} were free, directory has free slot: {}, but it failed with {}",
                        info.kind,
                        info.name,
                        need,
                        free_before,
                        has_slot,
                        info.err.clone().unwrap_or_default()
                    ),
                ));
            }
            if free_after != free_before {
                return Some(fail(
                    "failed-create-consumed-space",
                    format!("{} failed with {} but free clusters went from {} to {}", info.kind, info.err.clone().unwrap_or_default(), free_before, free_after),
                ));
            }
            None
        }
        _ => None,
    }
}
