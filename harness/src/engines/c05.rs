//! C05(b): an out-of-space error must not be premature: it may only be
//! returned when the request really does not fit in the free clusters counted
//! by an independent FAT scan taken just before the call.

use crate::engines::fsx::Ctx;
use crate::fsck::{self, DirLoc, FatView, SlotKind};
use crate::interp::{Interp, StepInfo};
use crate::runner::Failure;

fn fail(code: &str, detail: String) -> Failure {
    Failure {
        sig: format!("C05/{}", code),
        detail,
    }
}

/// Does the directory (by model node) have an unused slot inside its current extent?
fn dir_has_free_slot(it: &Interp, ctx: &Ctx, dir: usize) -> Option<bool> {
    let slot = it.nodes[dir].slot;
    let vt = ctx.vols.iter().find(|v| v.slot == slot)?;
    let path = it.path_of(dir);
    it.disk.with_img(|img| {
        let fv = FatView::new(img, &vt.lay);
        let l = if path == "/" {
            fsck::list_dir(img, &fv, DirLoc::Root)
        } else {
            let w = fsck::walk(img, &fv, &[]);
            let n = fsck::find_path(&w.root, &path)?;
            fsck::list_dir(img, &fv, DirLoc::Cluster(n.first))
        };
        Some(l.end_at.is_some() || l.slots.iter().any(|s| s.kind == SlotKind::Deleted))
    })
}

pub fn check_space_error(it: &Interp, ctx: &Ctx, info: &StepInfo) -> Option<Failure> {
    if !info.space_error {
        return None;
    }
    let slot = info.slot?;
    let vt = ctx.vols.iter().find(|v| v.slot == slot)?;
    let free_before = info.free_before?;
    let free_after = it.free_count(slot)?;
    let cb = vt.lay.cluster_bytes() as u64;
    match info.kind {
        "Write" => {
            let (off, n, accepted) = info.write?;
            // clusters the file had before the call
            let st = info.file_post.as_ref()?;
            let chain_now = it.disk.with_img(|img| {
                let fv = FatView::new(img, &vt.lay);
                if st.first >= 2 {
                    fsck::chain(&fv, st.first).0.len() as u64
                } else {
                    0
                }
            });
            let allocated = free_before.saturating_sub(free_after) as u64;
            let chain_before = chain_now.saturating_sub(allocated);
            let need_total = (off as u64 + n as u64 + cb - 1) / cb;
            let need_new = need_total.saturating_sub(chain_before);
            if need_new <= free_before as u64 {
                return Some(fail(
                    "premature-disk-full",
                    format!(
                        "write of {} bytes at offset {} needed {} new cluster(s) and {} were free, but it failed with {}",
                        n,
                        off,
                        need_new,
                        free_before,
                        info.err.clone().unwrap_or_default()
                    ),
                ));
            }
            // it did not fit: everything that was free must have been used, and the
            // accepted prefix must fill the chain completely
            if free_after != 0 {
                return Some(fail(
                    "space-left-after-disk-full",
                    format!("write failed with {} but {} clusters are still free", info.err.clone().unwrap_or_default(), free_after),
                ));
            }
            let end = off as u64 + accepted as u64;
            if end != chain_now * cb && chain_now > 0 {
                return Some(fail(
                    "accepted-less-than-capacity",
                    format!("write accepted bytes up to offset {} but the file's {} clusters hold {}", end, chain_now, chain_now * cb),
                ));
            }
            None
        }
        "Open" | "Mkdir" => {
            let dir = info.dir_node?;
            let is_root16 = !vt.lay.fat32 && it.nodes[dir].parent.is_none();
            let has_slot = dir_has_free_slot(it, ctx, dir)?;
            let mut need: u32 = 0;
            if !has_slot {
                if is_root16 {
                    return None; // fixed-size root directory is full: legitimate
                }
                need += 1;
            }
            if info.kind == "Mkdir" {
                need += 1;
            }
            if need <= free_before {
                return Some(fail(
                    "premature-not-enough-space",
                    format!(
                        "{} {:?} needed {} cluster(s), {} were free, directory has free slot: {}, but it failed with {}",
                        info.kind,
                        info.name,
                        need,
                        free_before,
                        has_slot,
                        info.err.clone().unwrap_or_default()
                    ),
                ));
            }
            if free_after != free_before {
                return Some(fail(
                    "failed-create-consumed-space",
                    format!("{} failed with {} but free clusters went from {} to {}", info.kind, info.err.clone().unwrap_or_default(), free_before, free_after),
                ));
            }
            None
        }
        _ => None,
    }
}

// ---------------------------------------------------------------------------------------------
// C05 fill / release / refill cycles: "filling a volume, freeing, and filling again accepts the
// same number of bytes, and can be repeated".

use crate::engines::fsx;
use crate::interp::{Case, Opts};
use crate::ops::{LenSel, NameSel, Op, Step};
use crate::runner::Acc;
use proptest::prelude::*;
use serde::{Deserialize, Serialize};

#[derive(Clone, Debug, Serialize, Deserialize)]
pub struct Cycle {
    /// pool indices of the 1-2 files filled in this cycle (written alternately)
    pub names: Vec<u8>,
    /// write lengths, used round-robin until every file reports out-of-space
    pub lens: Vec<LenSel>,
    pub seed: u32,
    /// 0: delete the files, 1: truncate them (open with Truncate, close), 2: delete, files re-created next cycle
    pub release: u8,
    pub surf: u8,
    pub d: u16,
}

#[derive(Clone, Debug, Serialize, Deserialize)]
pub struct FillCase {
    /// disk, limits, clock; `steps` is ignored
    pub base: Case,
    /// free clusters left on every volume by the formatter
    pub free: u16,
    pub cycles: Vec<Cycle>,
}

pub fn fill_strategy() -> BoxedStrategy<FillCase> {
    let cfg = fsx::cfg_for("C05");
    let big = prop_oneof![
        3 => (60000u16..=65535).prop_map(LenSel::Frac),
        2 => (any::<u8>(), any::<i8>()).prop_map(|(k, d)| LenSel::MultiCluster(k, d)),
    ];
    let any_len = prop_oneof![
        3 => (30000u16..=65535).prop_map(LenSel::Frac),
        2 => (any::<u8>(), any::<i8>()).prop_map(|(k, d)| LenSel::MultiCluster(k, d)),
        2 => any::<i8>().prop_map(LenSel::AroundCluster),
        1 => any::<u8>().prop_map(LenSel::Blocks),
        1 => any::<u16>().prop_map(LenSel::Small),
        1 => any::<i8>().prop_map(LenSel::Around512),
    ];
    let cycle = (prop::collection::vec(0u8..8, 1..3), big, prop::collection::vec(any_len, 0..3), any::<u32>(), 0u8..3, 0u8..3, any::<u16>())
        .prop_map(|(names, b, mut lens, seed, release, surf, d)| {
            lens.insert(0, b);
            Cycle { names, lens, seed, release, surf, d }
        });
    let free = prop_oneof![2 => 1u16..6, 3 => 6u16..40, 2 => 40u16..301];
    (fsx::strategy(&cfg), free, prop::collection::vec(cycle, 2..6))
        .prop_map(|(mut base, free, cycles)| {
            base.steps.clear();
            FillCase { base, free, cycles }
        })
        .boxed()
}

fn sel(j: usize, n: usize) -> u16 {
    // smallest raw with (raw * n) >> 16 == j
    (((j as u64) << 16).div_ceil(n as u64)).min(65535) as u16
}

pub fn run_fill_case(fc: &FillCase, acc: &mut Acc, verbose: bool) -> Result<(), Failure> {
    let mut case = fc.base.clone();
    case.steps.clear();
    for v in case.disk.vols.iter_mut().flatten() {
        v.usable.free_after = Some(fc.free);
    }
    let cfg = fsx::cfg_for("C05");
    let mut it = Interp::new(&case, Opts { track_space: true, ..Opts::default() });
    let ctx = fsx::make_ctx(&cfg, &it);
    let mut idx = 0usize;
    // Ok(Some(info)) = proceed, Ok(None) = case abandoned (out-of-scope divergence), Err = violation
    let mut step = |it: &mut Interp, op: Op, surf: u8| -> Result<Option<StepInfo>, Failure> {
        let st = Step { op, surf, tick: 1 };
        let info = it.step(idx, &st);
        idx += 1;
        if verbose {
            println!("{}", it.trace.last().cloned().unwrap_or_default());
        }
        if let Some(p) = &info.panicked {
            return Err(fail("panic", format!("step {} ({}) panicked: {}", idx - 1, info.kind, p)));
        }
        if let Some(d) = it.divs.iter().find(|d| d.prop == "C05") {
            return Err(fail(d.code, format!("step {}: {}", d.step, d.detail)));
        }
        if !it.divs.is_empty() {
            return Ok(None);
        }
        if let Some(f) = check_space_error(it, &ctx, &info) {
            return Err(f);
        }
        Ok(Some(info))
    };
    macro_rules! go {
        ($op:expr, $surf:expr) => {
            match step(&mut it, $op, $surf)? {
                Some(i) => i,
                None => {
                    acc.desync += 1;
                    acc.class("fill:abandoned-out-of-scope-divergence");
                    return Ok(());
                }
            }
        };
    }
    for st in crate::ops::prologue() {
        let _ = go!(st.op, st.surf);
    }
    let mut reached = 0u32;
    let mut per_cycle: Vec<(u64, u32)> = Vec::new();
    for (k, cy) in fc.cycles.iter().enumerate() {
        let mut names: Vec<u8> = cy.names.clone();
        names.dedup();
        if names.len() == 2 && names[0] % 21 == names[1] % 21 {
            names.truncate(1);
        }
        if !it.files.is_empty() {
            break;
        }
        let mut slot = None;
        let mut opened = 0usize;
        for nm in &names {
            let info = go!(Op::Open { d: cy.d, name: NameSel::Pool(*nm), mode: 4 }, cy.surf);
            if info.skipped || !info.ok {
                break;
            }
            slot = info.slot;
            opened += 1;
        }
        if opened != names.len() || opened == 0 {
            // the name is a directory / read-only file, the FAT16 root is full, ...: nothing to fill
            acc.class("fill:open-refused");
            for _ in 0..it.files.len() {
                let _ = go!(Op::Close { f: 0, drop_only: false }, 0);
            }
            continue;
        }
        let slot = slot.unwrap();
        let vt = ctx.vols.iter().find(|v| v.slot == slot).unwrap();
        let cb = vt.lay.cluster_bytes() as u64;
        let held = |it: &Interp| -> u64 {
            it.files
                .iter()
                .map(|f| match it.api().file_state(f.h) {
                    Some(st) if st.first >= 2 => it.disk.with_img(|img| fsck::chain(&FatView::new(img, &vt.lay), st.first).0.len() as u64),
                    _ => 0,
                })
                .sum()
        };
        let free_open = it.free_count(slot).unwrap_or(0) as u64;
        let held_open = held(&it);
        let n = it.files.len();
        let mut full = vec![false; n];
        let mut w = 0usize;
        'fill: while full.iter().any(|f| !*f) && w < 1500 {
            for j in 0..n {
                if full[j] {
                    continue;
                }
                let info = go!(Op::Write { f: sel(j, n), len: cy.lens[w % cy.lens.len()].clone(), seed: cy.seed.wrapping_add(w as u32) }, cy.surf);
                w += 1;
                if info.space_error {
                    full[j] = true;
                } else if !info.ok {
                    break 'fill;
                }
            }
        }
        if full.iter().any(|f| !*f) {
            acc.class("fill:full-not-reached");
            break;
        }
        reached += 1;
        let total: u64 = it.files.iter().map(|f| it.nodes[f.node].data.len() as u64).sum();
        let expected = (free_open + held_open) * cb;
        if total != expected {
            return Err(fail(
                "fill-total",
                format!(
                    "cycle {}: the volume accepted {} bytes until it reported out-of-space, but {} free + {} held clusters of {} bytes were available = {} (difference {} bytes)",
                    k, total, free_open, held_open, cb, expected, expected as i64 - total as i64
                ),
            ));
        }
        let left = it.free_count(slot).unwrap_or(0);
        if left != 0 {
            return Err(fail("space-left-after-disk-full", format!("cycle {}: every file reported out-of-space but {} clusters are free", k, left)));
        }
        per_cycle.push((total, n as u32));
        // everything accepted reads back
        let _ = go!(Op::CheckAll, 0);
        for _ in 0..n {
            let _ = go!(Op::Close { f: 0, drop_only: false }, cy.surf);
        }
        if let Some(f) = fsx::check_accounting(&it, &ctx) {
            return Err(f);
        }
        // release
        let mut still_held = 0u64;
        for nm in &names {
            if cy.release % 3 == 1 {
                let info = go!(Op::Open { d: cy.d, name: NameSel::Pool(*nm), mode: 2 }, cy.surf);
                if info.ok {
                    still_held += held(&it);
                    let _ = go!(Op::Close { f: 0, drop_only: false }, cy.surf);
                }
            } else {
                let _ = go!(Op::Delete { d: cy.d, name: NameSel::Pool(*nm) }, cy.surf);
            }
        }
        if let Some(f) = fsx::check_accounting(&it, &ctx) {
            return Err(f);
        }
        let free_now = it.free_count(slot).unwrap_or(0) as u64;
        if free_now + still_held != free_open + held_open {
            return Err(fail(
                "release-did-not-return-everything",
                format!(
                    "cycle {}: before filling {} clusters were free (+{} held by the open files); after {} {} are free (+{} still held)",
                    k,
                    free_open,
                    held_open,
                    if cy.release % 3 == 1 { "truncating" } else { "deleting" },
                    free_now,
                    still_held
                ),
            ));
        }
        acc.class(match cy.release % 3 {
            1 => "fill:released-by-truncate",
            _ => "fill:released-by-delete",
        });
    }
    acc.ops += it.stats.ops;
    acc.class_n("fill:cycles-reaching-full", reached as u64);
    if reached >= 2 {
        acc.class("fill:cases-with-2+-full-cycles");
        acc.shape(&("fill", fsx::geometry_class(&case), fc.free, per_cycle.clone(), fc.cycles.iter().map(|c| (c.release % 3, c.names.len())).collect::<Vec<_>>()));
        if acc.samples.len() < 2 {
            acc.sample(serde_json::json!({"engine": "c05-fill", "geometry": fsx::geometry_class(&case), "free_clusters": fc.free, "bytes_accepted_per_cycle": per_cycle.iter().map(|p| p.0).collect::<Vec<_>>()}));
        }
    }
    Ok(())
}
