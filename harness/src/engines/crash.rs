//! C09 / C10: power-loss enumeration. A generated history is executed once
//! with the write log on; then the medium is rebuilt after every prefix of the
//! block-write sequence and examined by the independent reader/checker and by
//! a fresh mount.

use crate::api::{self, Surf};
use crate::engines::fsx::{self, FsxCfg};
use crate::fsck::{self, FatView};
use crate::gen::VolBias;
use crate::interp::{Case, Interp, Opts, StepInfo};
use crate::mkfs::Layout;
use crate::ops::{self, Op, Profile, Step};
use crate::runner::{is_open_known, Acc, Failure, KnownFinding};
use crate::simdisk::{SimClock, SimDisk};
use embedded_sdmmc::Mode;
use serde_json::json;
use std::panic::{catch_unwind, AssertUnwindSafe};

pub fn cfg_for(prop: &'static str) -> FsxCfg {
    let base = fsx::cfg_for("C03");
    FsxCfg {
        prop,
        profile: Profile {
            open: 18,
            close: 10,
            flush: 8,
            write: 22,
            delete: 8,
            mkdir: 8,
            read: 1,
            seek: 5,
            query: 0,
            check_all: 0,
            remount: 0,
            close_volume: 2,
            open_volume: 2,
            open_root: 2,
            open_dir: 9,
            change_dir: 1,
            close_dir: 1,
            find: 0,
            list: 0,
            invalid_names: 0,
            modes: [1, 3, 3, 3, 3, 3],
            ..Profile::mixed()
        },
        bias: VolBias { stale: true, tight: prop == "C10", full_dirs: true, ..VolBias::default() },
        multi: false,
        steps: (1, 28),
        ..base
    }
}

fn fail(prop: &str, code: &str, detail: String) -> Failure {
    Failure { sig: format!("{}/{}", prop, code), detail }
}

struct Snap {
    node: usize,
    slot: usize,
    path: String,
    data: Vec<u8>,
    w0: usize,
    w1: Option<usize>,
    later_same_block_or_fat_write: bool,
}

/// Mount the image afresh with the crate: volume opens, root lists.
fn fresh_mount_ok(disk: &SimDisk, slots: &[usize]) -> Result<(), String> {
    let api = api::make_mgr(11, disk.clone(), SimClock::new(5), 900);
    let r = catch_unwind(AssertUnwindSafe(|| -> Result<(), String> {
        for s in slots {
            let v = api.open_volume(*s, Surf::Raw).map_err(|e| format!("open_raw_volume({}) = {:?}", s, e))?;
            let d = api.open_root_dir(v, Surf::Raw).map_err(|e| format!("open_root_dir = {:?}", e))?;
            api.iterate(d, Surf::Raw, &mut |_| {}).map_err(|e| format!("iterate_dir(root) = {:?}", e))?;
            let _ = api.close_dir(d, Surf::Raw);
            let _ = api.close_volume(v, Surf::Raw);
        }
        Ok(())
    }));
    match r {
        Ok(x) => x,
        Err(p) => Err(format!("panic: {}", crate::interp::panic_msg(&p).0)),
    }
}

/// Read one file through a fresh mount.
fn fresh_mount_read(disk: &SimDisk, slot: usize, path: &str) -> Result<Vec<u8>, String> {
    let api = api::make_mgr(11, disk.clone(), SimClock::new(5), 900);
    let r = catch_unwind(AssertUnwindSafe(|| -> Result<Vec<u8>, String> {
        let v = api.open_volume(slot, Surf::Raw).map_err(|e| format!("open_raw_volume = {:?}", e))?;
        let mut d = api.open_root_dir(v, Surf::Raw).map_err(|e| format!("open_root_dir = {:?}", e))?;
        let comps: Vec<&str> = path.trim_start_matches('/').split('/').collect();
        for c in &comps[..comps.len() - 1] {
            let n = api.open_dir(d, c, Surf::Raw).map_err(|e| format!("open_dir({}) = {:?}", c, e))?;
            let _ = api.close_dir(d, Surf::Raw);
            d = n;
        }
        let f = api.open_file(d, comps[comps.len() - 1], Mode::ReadOnly, Surf::Raw).map_err(|e| format!("open_file_in_dir({}) = {:?}", path, e))?;
        let mut out = Vec::new();
        let mut buf = vec![0u8; 4096];
        loop {
            let n = api.read(f, &mut buf, Surf::Raw).map_err(|e| format!("read = {:?}", e))?;
            if n == 0 {
                break;
            }
            out.extend_from_slice(&buf[..n]);
            if out.len() > (64 << 20) {
                break;
            }
        }
        Ok(out)
    }));
    match r {
        Ok(x) => x,
        Err(p) => Err(format!("panic: {}", crate::interp::panic_msg(&p).0)),
    }
}

pub fn run_case(cfg: &FsxCfg, case: &Case, acc: &mut Acc, known: &[KnownFinding], verbose: bool, thorough: bool) -> Result<(), Failure> {
    let prop = cfg.prop;
    let mut it = Interp::new(case, Opts::default());
    let initial = it.disk.snapshot();
    let lays: Vec<(usize, Layout)> = it.pvols.iter().map(|p| (p.slot, fsck::layout_of(&initial, p.slot).expect("layout"))).collect();
    let slots: Vec<usize> = lays.iter().map(|l| l.0).collect();
    let mut steps: Vec<Step> = ops::prologue();
    steps.extend(case.steps.iter().cloned());
    let mut snaps: Vec<Snap> = Vec::new();
    // (log_start, log_end, kind) per step
    let mut spans: Vec<(usize, usize, &'static str)> = Vec::new();
    for (i, st) in steps.iter().enumerate() {
        let info = it.step(i, st);
        if verbose {
            println!("{}   [log {}..{}]", it.trace.last().cloned().unwrap_or_default(), info.log_start, info.log_end);
        }
        if !it.divs.is_empty() {
            acc.desync += 1;
            acc.class(&format!("desync:{}/{}", it.divs[0].prop, it.divs[0].code));
            return Ok(());
        }
        spans.push((info.log_start, info.log_end, info.kind));
        if info.created && info.ok {
            if let (Some(d), Some(slot)) = (info.dir_node, info.slot) {
                let sub = it.nodes[d].parent.is_some();
                if sub {
                    acc.class("hist:create-in-sub-directory");
                }
                if let Some((_, lay)) = lays.iter().find(|l| l.0 == slot) {
                    let f0 = lay.fat_start(0);
                    let grew = it.disk.0.borrow().log[info.log_start..info.log_end].iter().any(|r| r.block >= f0 && r.block < f0 + lay.fat_sectors);
                    if grew {
                        acc.class(if sub { "hist:sub-directory-grew-on-create" } else { "hist:root-directory-grew-on-create" });
                    }
                }
            }
        }
        if prop == "C09" {
            // a modification of a file ends the validity of its snapshots
            let modifies = info.write.is_some() || info.truncated || info.deleted || (info.kind == "Write" && !info.ok);
            if modifies {
                if let Some(n) = info.file_node {
                    for s in snaps.iter_mut().filter(|s| s.node == n && s.w1.is_none()) {
                        s.w1 = Some(info.log_start);
                    }
                }
            }
            if info.flushed_ok {
                if let Some(n) = info.file_node {
                    if !it.nodes[n].tainted && it.is_alive_path(n) {
                        // one live snapshot per node is enough: the newest
                        for s in snaps.iter_mut().filter(|s| s.node == n && s.w1.is_none()) {
                            s.w1 = Some(info.log_end);
                        }
                        snaps.push(Snap { node: n, slot: it.nodes[n].slot, path: it.path_of(n), data: it.nodes[n].data.clone(), w0: info.log_end, w1: None, later_same_block_or_fat_write: false });
                    }
                }
            }
        }
    }
    // closing everything is part of the history as well
    let mut info = StepInfo { kind: "CloseAll", idx: steps.len(), log_start: it.disk.log_len(), ..Default::default() };
    it.step_no = steps.len();
    if prop == "C09" {
        // close_all flushes dirty files: those are modifications of the on-disk entry, but
        // not of the flushed prefix; snapshots stay valid (size only grows to the model length)
        // unless the file was written after its last flush - those windows are closed already.
    }
    it.close_all(&mut info);
    if !it.divs.is_empty() {
        acc.desync += 1;
        return Ok(());
    }
    spans.push((info.log_start, it.disk.log_len(), "CloseAll"));
    let log: Vec<(u32, Box<[u8; 512]>)> = it.disk.0.borrow().log.iter().map(|r| (r.block, r.new.clone())).collect();
    let total = log.len();
    // working medium
    let work = SimDisk::new(initial.clone());
    work.0.borrow_mut().log_enabled = false;
    let mut result: Result<(), Failure> = Ok(());
    let mut prefixes = 0u64;
    let mut nt_prefixes = 0u64;
    let geom = fsx::geometry_class(case);
    let span_of = |k: usize| -> Option<(usize, usize, &'static str)> { spans.iter().copied().find(|(a, b, _)| *a < k && k < *b) };

    if prop == "C10" {
        for k in 0..=total {
            if k > 0 {
                let (b, data) = &log[k - 1];
                work.0.borrow_mut().img.wr(*b, data);
            }
            prefixes += 1;
            let inside = span_of(k);
            if let Some((a, _b, kind)) = inside {
                nt_prefixes += 1;
                acc.shape(&(geom.clone(), kind, k - a));
                acc.class(&format!("crash-inside:{}", kind));
            }
            // (i) mountable
            if let Err(e) = fresh_mount_ok(&work, &slots) {
                result = Err(fail("C10", "does-not-mount", format!("after {} of {} block writes ({}) the medium does not mount: {}", k, total, describe(k, &spans), e)));
                break;
            }
            // (ii) structurally harmless
            let mut bad = None;
            for (slot, lay) in &lays {
                let v = work.with_img(|img| {
                    let fv = FatView::new(img, lay);
                    let w = fsck::walk(img, &fv, &[]);
                    fsck::check_tree(&w, lay, fsck::Mode::Crash)
                });
                if let Some(x) = v.first() {
                    bad = Some((*slot, x.clone()));
                    break;
                }
            }
            if let Some((slot, v)) = bad {
                result = Err(fail("C10", v.code, format!("power cut after {} of {} block writes ({}): slot {}: {}", k, total, describe(k, &spans), slot, v.detail)));
                break;
            }
        }
    } else {
        // C09: mark non-triviality of each snapshot: a later write (inside its window) to the
        // block holding its entry or to a FAT sector holding part of its chain
        for s in snaps.iter_mut() {
            let end = s.w1.unwrap_or(total);
            let lay = &lays.iter().find(|l| l.0 == s.slot).unwrap().1;
            let fat_lo = lay.fat_start(0);
            let fat_hi = fat_lo + lay.num_fats * lay.fat_sectors;
            for (b, _) in &log[s.w0.min(total)..end.min(total)] {
                if *b >= fat_lo && *b < fat_hi || (*b >= lay.part_start + lay.first_data.saturating_sub(lay.root_sectors) && *b < lay.data_end()) {
                    s.later_same_block_or_fat_write = true;
                }
            }
        }
        let first = snaps.iter().map(|s| s.w0).min().unwrap_or(total + 1);
        for k in 0..=total {
            if k > 0 {
                let (b, data) = &log[k - 1];
                work.0.borrow_mut().img.wr(*b, data);
            }
            if k < first {
                continue;
            }
            let active: Vec<&Snap> = snaps.iter().filter(|s| s.w0 <= k && k <= s.w1.unwrap_or(total)).collect();
            if active.is_empty() {
                continue;
            }
            for (slot, lay) in &lays {
                let mine: Vec<&&Snap> = active.iter().filter(|s| s.slot == *slot).collect();
                if mine.is_empty() {
                    continue;
                }
                let r: Option<Failure> = work.with_img(|img| {
                    let fv = FatView::new(img, lay);
                    let w = fsck::walk(img, &fv, &[]);
                    for s in &mine {
                        let Some(f) = fsck::find_path(&w.root, &s.path) else {
                            return Some(fail("C09", "flushed-file-lost", format!("{} was flushed after write {} but is not found after write {} of {} ({})", s.path, s.w0, k, total, describe(k, &spans))));
                        };
                        if (f.size as usize) < s.data.len() {
                            return Some(fail("C09", "flushed-file-shorter", format!("{} was flushed with {} bytes (after write {}) but has {} after write {} ({})", s.path, s.data.len(), s.w0, f.size, k, describe(k, &spans))));
                        }
                        let mut f2 = f.clone();
                        f2.size = s.data.len() as u32;
                        let data = fsck::read_file(img, lay, &f2);
                        if data != s.data {
                            let p = data.iter().zip(s.data.iter()).position(|(a, b)| a != b).unwrap_or(data.len().min(s.data.len()));
                            return Some(fail("C09", "flushed-content-changed", format!("{} (flushed after write {}) differs at byte {} after write {} of {} ({})", s.path, s.w0, p, k, total, describe(k, &spans))));
                        }
                    }
                    None
                });
                prefixes += mine.len() as u64;
                if let Some(f) = r {
                    result = Err(f);
                    break;
                }
                for s in &mine {
                    if s.later_same_block_or_fat_write {
                        nt_prefixes += 1;
                        acc.shape(&(geom.clone(), s.path.len(), s.data.len() / 512, k - s.w0));
                    }
                }
                // fresh mount by the crate itself on a sample of the prefixes (all in thorough)
                if thorough || k % 4 == 0 || k == total {
                    for s in &mine {
                        match fresh_mount_read(&work, *slot, &s.path) {
                            Ok(d) => {
                                if d.len() < s.data.len() || d[..s.data.len()] != s.data[..] {
                                    result = Err(fail("C09", "fresh-mount-reads-different-data", format!("{} (flushed after write {}): a fresh mount after write {} reads {} bytes that differ from the flushed {}", s.path, s.w0, k, d.len(), s.data.len())));
                                }
                            }
                            Err(e) => {
                                result = Err(fail("C09", "fresh-mount-cannot-read", format!("{} (flushed after write {}): fresh mount after write {} ({}): {}", s.path, s.w0, k, describe(k, &spans), e)));
                            }
                        }
                        acc.class("fresh-mount-reads");
                        if result.is_err() {
                            break;
                        }
                    }
                }
            }
            if result.is_err() {
                break;
            }
        }
        acc.class_n("snapshots", snaps.len() as u64);
    }
    acc.evaluations += prefixes;
    acc.class_n("prefixes", prefixes);
    acc.class_n("prefixes-nontrivial", nt_prefixes);
    acc.ops += it.stats.ops;
    acc.skipped_ops += it.stats.skipped;
    for g in &geom {
        acc.class(&format!("geom:{}", g));
    }
    if let Err(f) = &result {
        if is_open_known(known, prop, &f.sig) {
            acc.known(&f.sig);
            return Ok(());
        }
        if verbose {
            println!("FAIL {}: {}", f.sig, f.detail);
        }
        return result;
    }
    if nt_prefixes > 0 && acc.samples.len() < 3 {
        let mut s = fsx::abbreviate(case);
        s["block_writes"] = json!(total);
        s["prefixes_checked"] = json!(prefixes);
        acc.sample(s);
    }
    Ok(())
}

fn describe(k: usize, spans: &[(usize, usize, &'static str)]) -> String {
    for (i, (a, b, kind)) in spans.iter().enumerate() {
        if *a < k && k <= *b {
            return format!("write {} of {} in step {} = {}", k - a, b - a, i, kind);
        }
    }
    "before the first write".into()
}

pub fn dummy_use(_: Op) {}
