//! Operation language of generated histories. Ops carry raw selectors that the
//! interpreter resolves against the current model state with monotone maps.

use proptest::prelude::*;
use serde::{Deserialize, Serialize};

#[derive(Clone, Debug, Serialize, Deserialize, PartialEq)]
pub enum NameSel {
    /// one of the names currently present in the directory
    Existing(u16),
    /// name from the fixed pool (may or may not exist)
    Pool(u8),
    /// a name deleted earlier in this directory
    Deleted(u16),
    Invalid(u8),
    Dot,
    DotDot,
    /// one of the sub-directories currently present in the directory (any name if there is none)
    ExistingDir(u16),
    /// a name outside the pool (`F<n>.TMP`): bursts of creates that fill a directory block by block
    Fresh(u8),
}

#[derive(Clone, Debug, Serialize, Deserialize, PartialEq)]
pub enum LenSel {
    Zero,
    One,
    Small(u16),
    Around512(i8),
    Blocks(u8),
    AroundCluster(i8),
    MultiCluster(u8, i8),
    Frac(u16),
}

impl LenSel {
    pub fn resolve(&self, cluster_bytes: u32) -> usize {
        let cb = cluster_bytes as i64;
        let cap: i64 = (6 * cb).min(160 * 1024);
        let v: i64 = match self {
            LenSel::Zero => 0,
            LenSel::One => 1,
            LenSel::Small(x) => 2 + (*x as i64 % 510),
            LenSel::Around512(d) => 512 + (*d as i64 % 3),
            LenSel::Blocks(k) => 512 * (1 + *k as i64 % 8),
            LenSel::AroundCluster(d) => cb + (*d as i64 % 3),
            LenSel::MultiCluster(k, d) => cb * (2 + *k as i64 % 4) + (*d as i64 % 3),
            LenSel::Frac(f) => (cap * *f as i64) >> 16,
        };
        v.clamp(0, cap) as usize
    }
    pub fn class(&self) -> &'static str {
        match self {
            LenSel::Zero => "0",
            LenSel::One => "1",
            LenSel::Small(_) => "sub-block",
            LenSel::Around512(_) => "~512",
            LenSel::Blocks(_) => "k*512",
            LenSel::AroundCluster(_) => "~cluster",
            LenSel::MultiCluster(..) => "multi-cluster",
            LenSel::Frac(_) => "random",
        }
    }
}

#[derive(Clone, Debug, Serialize, Deserialize, PartialEq)]
pub enum PosSel {
    Zero,
    Len,
    LenPlus1,
    Max,
    Frac(u16),
    BlockAligned(u16),
    ClusterAligned(u8),
    Abs(u32),
}

impl PosSel {
    pub fn resolve(&self, len: u32, cluster_bytes: u32) -> u32 {
        match self {
            PosSel::Zero => 0,
            PosSel::Len => len,
            PosSel::LenPlus1 => len.saturating_add(1),
            PosSel::Max => u32::MAX,
            PosSel::Frac(f) => ((len as u64 * *f as u64) >> 16) as u32,
            PosSel::BlockAligned(f) => ((((len as u64 * *f as u64) >> 16) as u32) / 512) * 512,
            PosSel::ClusterAligned(k) => {
                let n = len / cluster_bytes.max(1);
                if n == 0 {
                    0
                } else {
                    (*k as u32 % (n + 1)) * cluster_bytes
                }
            }
            PosSel::Abs(x) => *x,
        }
    }
}

#[derive(Clone, Debug, Serialize, Deserialize, PartialEq)]
pub enum Op {
    OpenVolume { slot: u8 },
    CloseVolume { v: u16 },
    OpenRoot { v: u16 },
    OpenDir { d: u16, name: NameSel },
    ChangeDir { d: u16, name: NameSel },
    CloseDir { d: u16 },
    Open { d: u16, name: NameSel, mode: u8 },
    Close { f: u16, drop_only: bool },
    Flush { f: u16 },
    Read { f: u16, len: LenSel },
    Write { f: u16, len: LenSel, seed: u32 },
    SeekStart { f: u16, to: PosSel },
    SeekCur { f: u16, to: PosSel, raw: Option<i32> },
    SeekEnd { f: u16, back: PosSel },
    IoSeek { f: u16, whence: u8, to: PosSel, raw: Option<i64> },
    Query { f: u16 },
    Delete { d: u16, name: NameSel },
    Mkdir { d: u16, name: NameSel },
    Find { d: u16, name: NameSel },
    List { d: u16 },
    ListLfn { d: u16, cap: u16 },
    HasOpen,
    /// Stands for the long run of open calls (each one, granted or refused, draws a handle number)
    /// after which the 32-bit handle counter comes round to `back` below a handle that is still
    /// open (hook H4 moves the counter there).
    LongHistory { which: u16, back: u8 },
    Label { v: u16 },
    Stale { kind: u8, which: u16, method: u8 },
    Reenter { d: u16, lfn: bool, method: u8, at: u8 },
    CheckAll,
    Remount,
}

impl Op {
    pub fn kind(&self) -> &'static str {
        match self {
            Op::OpenVolume { .. } => "OpenVolume",
            Op::CloseVolume { .. } => "CloseVolume",
            Op::OpenRoot { .. } => "OpenRoot",
            Op::OpenDir { .. } => "OpenDir",
            Op::ChangeDir { .. } => "ChangeDir",
            Op::CloseDir { .. } => "CloseDir",
            Op::Open { .. } => "Open",
            Op::Close { .. } => "Close",
            Op::Flush { .. } => "Flush",
            Op::Read { .. } => "Read",
            Op::Write { .. } => "Write",
            Op::SeekStart { .. } => "SeekStart",
            Op::SeekCur { .. } => "SeekCur",
            Op::SeekEnd { .. } => "SeekEnd",
            Op::IoSeek { .. } => "IoSeek",
            Op::Query { .. } => "Query",
            Op::Delete { .. } => "Delete",
            Op::Mkdir { .. } => "Mkdir",
            Op::Find { .. } => "Find",
            Op::List { .. } => "List",
            Op::ListLfn { .. } => "ListLfn",
            Op::HasOpen => "HasOpen",
            Op::LongHistory { .. } => "LongHistory",
            Op::Label { .. } => "Label",
            Op::Stale { .. } => "Stale",
            Op::Reenter { .. } => "Reenter",
            Op::CheckAll => "CheckAll",
            Op::Remount => "Remount",
        }
    }
}

#[derive(Clone, Debug, Serialize, Deserialize, PartialEq)]
pub struct Step {
    pub op: Op,
    pub surf: u8,
    pub tick: u32,
}

pub fn name_sel(w_invalid: u32) -> impl Strategy<Value = NameSel> {
    prop_oneof![
        6 => any::<u16>().prop_map(NameSel::Existing),
        6 => any::<u8>().prop_map(NameSel::Pool),
        2 => any::<u16>().prop_map(NameSel::Deleted),
        w_invalid => any::<u8>().prop_map(NameSel::Invalid),
        // the dot names: directories in every sub-directory, absent from a root
        1 => Just(NameSel::Dot),
        1 => Just(NameSel::DotDot),
    ]
}

pub fn dir_name_sel() -> impl Strategy<Value = NameSel> {
    prop_oneof![
        3 => any::<u16>().prop_map(NameSel::Existing),
        5 => any::<u16>().prop_map(NameSel::ExistingDir),
        2 => any::<u8>().prop_map(NameSel::Pool),
        1 => any::<u8>().prop_map(NameSel::Invalid),
        2 => Just(NameSel::Dot),
        2 => Just(NameSel::DotDot),
    ]
}

pub fn len_sel() -> impl Strategy<Value = LenSel> {
    prop_oneof![
        1 => Just(LenSel::Zero),
        1 => Just(LenSel::One),
        4 => any::<u16>().prop_map(LenSel::Small),
        2 => any::<i8>().prop_map(LenSel::Around512),
        2 => any::<u8>().prop_map(LenSel::Blocks),
        2 => any::<i8>().prop_map(LenSel::AroundCluster),
        2 => (any::<u8>(), any::<i8>()).prop_map(|(a, b)| LenSel::MultiCluster(a, b)),
        2 => any::<u16>().prop_map(LenSel::Frac),
    ]
}

pub fn pos_sel() -> impl Strategy<Value = PosSel> {
    prop_oneof![
        2 => Just(PosSel::Zero),
        2 => Just(PosSel::Len),
        1 => Just(PosSel::LenPlus1),
        1 => Just(PosSel::Max),
        6 => any::<u16>().prop_map(PosSel::Frac),
        2 => any::<u16>().prop_map(PosSel::BlockAligned),
        2 => any::<u8>().prop_map(PosSel::ClusterAligned),
        1 => any::<u32>().prop_map(PosSel::Abs),
    ]
}

/// Relative weights of op kinds for one engine.
#[derive(Clone, Debug)]
pub struct Profile {
    pub open_volume: u32,
    pub close_volume: u32,
    pub open_root: u32,
    pub open_dir: u32,
    pub change_dir: u32,
    pub close_dir: u32,
    pub open: u32,
    pub close: u32,
    pub flush: u32,
    pub read: u32,
    pub write: u32,
    pub seek: u32,
    pub query: u32,
    pub delete: u32,
    pub mkdir: u32,
    pub find: u32,
    pub list: u32,
    pub has_open: u32,
    pub long_history: u32,
    pub label: u32,
    pub stale: u32,
    pub reenter: u32,
    pub check_all: u32,
    pub remount: u32,
    pub invalid_names: u32,
    /// bias of open modes: weights for the six modes
    pub modes: [u32; 6],
    pub weird_seeks: bool,
}

impl Profile {
    pub fn rw() -> Profile {
        Profile {
            open_volume: 1,
            close_volume: 1,
            open_root: 2,
            open_dir: 2,
            change_dir: 1,
            close_dir: 1,
            open: 14,
            close: 5,
            flush: 4,
            read: 18,
            write: 22,
            seek: 18,
            query: 3,
            delete: 0,
            mkdir: 0,
            find: 0,
            list: 0,
            has_open: 0,
            long_history: 0,
            label: 0,
            stale: 0,
            reenter: 0,
            check_all: 4,
            remount: 1,
            invalid_names: 0,
            modes: [3, 3, 2, 3, 2, 3],
            weird_seeks: true,
        }
    }
    pub fn mixed() -> Profile {
        Profile {
            delete: 6,
            mkdir: 5,
            find: 2,
            list: 2,
            read: 8,
            seek: 8,
            write: 20,
            open: 16,
            close: 8,
            flush: 5,
            ..Profile::rw()
        }
    }
}

pub fn op_strategy(p: &Profile) -> BoxedStrategy<Op> {
    let modes = p.modes;
    let mode = prop_oneof![
        modes[0] => Just(0u8), modes[1] => Just(1u8), modes[2] => Just(2u8),
        modes[3] => Just(3u8), modes[4] => Just(4u8), modes[5] => Just(5u8),
    ];
    let inv = p.invalid_names;
    let weird = p.weird_seeks;
    let seek = prop_oneof![
        4 => (any::<u16>(), pos_sel()).prop_map(|(f, to)| Op::SeekStart { f, to }),
        3 => (any::<u16>(), pos_sel(), if weird { prop_oneof![8 => Just(None), 1 => prop_oneof![Just(i32::MIN), Just(i32::MAX), Just(-1i32), any::<i32>()].prop_map(Some)].boxed() } else { Just(None).boxed() })
            .prop_map(|(f, to, raw)| Op::SeekCur { f, to, raw }),
        3 => (any::<u16>(), pos_sel()).prop_map(|(f, back)| Op::SeekEnd { f, back }),
        2 => (any::<u16>(), any::<u8>(), pos_sel(), if weird { prop_oneof![8 => Just(None), 1 => prop_oneof![Just(i64::MAX), Just(i64::MIN), Just(i64::MIN + 1), Just(-(1i64 << 32)), Just(1i64 << 32), Just(-1i64), Just(1i64), any::<i64>()].prop_map(Some)].boxed() } else { Just(None).boxed() })
            .prop_map(|(f, whence, to, raw)| Op::IoSeek { f, whence, to, raw }),
    ];
    let mut v: Vec<(u32, BoxedStrategy<Op>)> = vec![
        (p.open_volume, prop_oneof![8 => (0u8..4), 1 => (4u8..6)].prop_map(|slot| Op::OpenVolume { slot }).boxed()),
        (p.close_volume, any::<u16>().prop_map(|v| Op::CloseVolume { v }).boxed()),
        (p.open_root, any::<u16>().prop_map(|v| Op::OpenRoot { v }).boxed()),
        (p.open_dir, (any::<u16>(), dir_name_sel()).prop_map(|(d, name)| Op::OpenDir { d, name }).boxed()),
        (p.change_dir, (any::<u16>(), dir_name_sel()).prop_map(|(d, name)| Op::ChangeDir { d, name }).boxed()),
        (p.close_dir, any::<u16>().prop_map(|d| Op::CloseDir { d }).boxed()),
        (p.open, (any::<u16>(), name_sel(inv), mode).prop_map(|(d, name, mode)| Op::Open { d, name, mode }).boxed()),
        (p.close, (any::<u16>(), prop::bool::weighted(0.2)).prop_map(|(f, drop_only)| Op::Close { f, drop_only }).boxed()),
        (p.flush, any::<u16>().prop_map(|f| Op::Flush { f }).boxed()),
        (p.read, (any::<u16>(), len_sel()).prop_map(|(f, len)| Op::Read { f, len }).boxed()),
        (p.write, (any::<u16>(), len_sel(), any::<u32>()).prop_map(|(f, len, seed)| Op::Write { f, len, seed }).boxed()),
        (p.seek, seek.boxed()),
        (p.query, any::<u16>().prop_map(|f| Op::Query { f }).boxed()),
        (p.delete, (any::<u16>(), name_sel(inv)).prop_map(|(d, name)| Op::Delete { d, name }).boxed()),
        (p.mkdir, (any::<u16>(), name_sel(inv)).prop_map(|(d, name)| Op::Mkdir { d, name }).boxed()),
        (p.find, (any::<u16>(), dir_name_sel()).prop_map(|(d, name)| Op::Find { d, name }).boxed()),
        (p.list, prop_oneof![
            any::<u16>().prop_map(|d| Op::List { d }),
            (any::<u16>(), prop_oneof![Just(0u16), Just(13u16), Just(64u16), Just(255u16), (0u16..800)]).prop_map(|(d, cap)| Op::ListLfn { d, cap }),
        ].boxed()),
        (p.has_open, Just(Op::HasOpen).boxed()),
        (p.long_history, (any::<u16>(), 0u8..4).prop_map(|(which, back)| Op::LongHistory { which, back }).boxed()),
        (p.label, any::<u16>().prop_map(|v| Op::Label { v }).boxed()),
        (p.stale, (any::<u8>(), any::<u16>(), any::<u8>()).prop_map(|(kind, which, method)| Op::Stale { kind, which, method }).boxed()),
        (p.reenter, (any::<u16>(), any::<bool>(), any::<u8>(), any::<u8>()).prop_map(|(d, lfn, method, at)| Op::Reenter { d, lfn, method, at }).boxed()),
        (p.check_all, Just(Op::CheckAll).boxed()),
        (p.remount, Just(Op::Remount).boxed()),
    ];
    v.retain(|(w, _)| *w > 0);
    proptest::strategy::Union::new_weighted(v).boxed()
}

pub fn step_strategy(p: &Profile) -> impl Strategy<Value = Step> {
    (op_strategy(p), any::<u8>(), prop_oneof![3 => (1u32..100), 1 => (100u32..200_000)]).prop_map(|(op, surf, tick)| Step { op, surf, tick })
}

/// Standard prologue so that every history starts with something open.
pub fn prologue() -> Vec<Step> {
    vec![
        Step { op: Op::OpenVolume { slot: 0 }, surf: 0, tick: 1 },
        Step { op: Op::OpenVolume { slot: 1 }, surf: 0, tick: 1 },
        Step { op: Op::OpenVolume { slot: 2 }, surf: 0, tick: 1 },
        Step { op: Op::OpenVolume { slot: 3 }, surf: 0, tick: 1 },
        Step { op: Op::OpenRoot { v: 0 }, surf: 0, tick: 1 },
        Step { op: Op::OpenRoot { v: 0xFFFF }, surf: 0, tick: 1 },
    ]
}
