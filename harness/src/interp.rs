//! Reference model + interpreter: executes a generated history against the
//! crate and against a plain in-memory model, recording every disagreement
//! with the property class it belongs to.

use crate::api::{self, Api, FileState, Surf, E};
use crate::gen::NAME_POOL;
use crate::mkfs::{self, content, DiskSpec, Layout, PNode, PVol};
use crate::names::{self, RefName, INVALID_NAMES};
use crate::ops::{NameSel, Op, Step};
use crate::simdisk::{tick_to_fat, BudgetExceeded, SimClock, SimDisk};
use embedded_sdmmc::{DirEntry, Mode, RawDirectory, RawFile, RawVolume};
use serde::{Deserialize, Serialize};
use std::panic::{catch_unwind, AssertUnwindSafe};

#[derive(Clone, Debug, Serialize, Deserialize, PartialEq)]
pub struct Case {
    pub cfg: u8,
    pub id_offset: u32,
    pub clock0: u32,
    pub disk: DiskSpec,
    pub steps: Vec<Step>,
}

#[derive(Clone, Debug, PartialEq)]
pub struct Divergence {
    pub prop: &'static str,
    pub code: &'static str,
    pub detail: String,
    pub step: usize,
}

pub type NodeId = usize;

#[derive(Clone, Debug)]
pub struct MNode {
    pub slot: usize,
    pub parent: Option<NodeId>,
    pub name: [u8; 11],
    pub is_dir: bool,
    pub attr: u8,
    pub data: Vec<u8>,
    pub children: Vec<NodeId>,
    pub deleted_names: Vec<[u8; 11]>,
    pub alive: bool,
    /// bytes 12..20 of the entry as they must stay (None for root)
    pub cfields: Option<[u8; 8]>,
    /// (date, time) expected in the write-time field; None = not comparable
    pub mtime: Option<(u16, u16)>,
    /// raw entry as formatted, until the history touches the node
    pub raw0: Option<[u8; 32]>,
    pub touched: bool,
    pub tainted: bool,
    /// content as of the last successful flush/close (None = never flushed in this history)
    pub flushed: Option<Vec<u8>>,
    pub created_in_history: bool,
}

#[derive(Clone, Debug)]
pub struct OVol {
    pub h: RawVolume,
    pub slot: usize,
}
#[derive(Clone, Debug)]
pub struct ODir {
    pub h: RawDirectory,
    pub vol: RawVolume,
    pub slot: usize,
    pub node: NodeId,
}
#[derive(Clone, Debug)]
pub struct OFile {
    pub h: RawFile,
    pub vol: RawVolume,
    pub slot: usize,
    pub node: NodeId,
    pub off: u32,
    pub writable: bool,
    pub dirty: bool,
}

#[derive(Clone, Debug, Default)]
pub struct Opts {
    /// query H2 + free count around mutating calls
    pub track_space: bool,
    /// stop executing after the first divergence of any class
    pub stop_on_divergence: bool,
    /// tolerate device errors (fault engines): Err(DeviceError) is never a divergence
    pub faults: bool,
}

#[derive(Clone, Debug, Default)]
pub struct StepInfo {
    pub idx: usize,
    pub kind: &'static str,
    pub skipped: bool,
    pub ok: bool,
    pub err: Option<String>,
    pub panicked: Option<String>,
    pub budget_exceeded: bool,
    pub log_start: usize,
    pub log_end: usize,
    pub dev_start: u64,
    pub dev_end: u64,
    pub slot: Option<usize>,
    pub file_node: Option<NodeId>,
    pub dir_node: Option<NodeId>,
    pub file_pre: Option<FileState>,
    pub file_post: Option<FileState>,
    pub free_before: Option<u32>,
    pub space_error: bool,
    pub refused: bool,
    /// write: (offset before, requested len, accepted len)
    pub write: Option<(u32, usize, usize)>,
    pub flushed_ok: bool,
    pub closed_file: bool,
    pub created: bool,
    pub truncated: bool,
    pub deleted: bool,
    pub mkdir: bool,
    pub name: Option<String>,
    pub mode: Option<u8>,
    pub state_class: Option<&'static str>,
    pub device_error: bool,
}

#[derive(Clone, Debug, Default)]
pub struct Stats {
    pub ops: u64,
    pub skipped: u64,
    pub by_kind: std::collections::BTreeMap<&'static str, u64>,
    pub errors_by_variant: std::collections::BTreeMap<String, u64>,
    pub max_files_open: usize,
    pub max_vols_open: usize,
    pub backwards_seek: bool,
    pub midblock_write: bool,
    pub cross_cluster_write: bool,
    pub short_write_at_block_start: bool,
    pub extend_after_seek_end: bool,
    pub truncates: u32,
    pub delete_then_create: bool,
    pub remounts: u32,
    pub read_after_write_overlap: bool,
    pub alternating_files: bool,
    pub surfaces: [u64; 3],
    pub space_errors: u32,
    pub last_written_file: Option<NodeId>,
}

pub struct Interp {
    pub disk: SimDisk,
    pub clock: SimClock,
    pub api: Option<Box<dyn Api>>,
    pub cfg: usize,
    pub id_offset: u32,
    pub pvols: Vec<PVol>,
    /// partition slots whose root directory starts with a volume-label entry
    pub labelled: Vec<bool>,
    pub nodes: Vec<MNode>,
    pub roots: Vec<Option<NodeId>>, // per slot
    pub vols: Vec<OVol>,
    pub dirs: Vec<ODir>,
    pub files: Vec<OFile>,
    pub closed_vols: Vec<RawVolume>,
    pub closed_dirs: Vec<RawDirectory>,
    pub closed_files: Vec<RawFile>,
    pub divs: Vec<Divergence>,
    pub stats: Stats,
    pub opts: Opts,
    pub trace: Vec<String>,
    pub step_no: usize,
    pub written_ranges: Vec<(NodeId, u32, u32)>,
    /// signatures of open known findings that are tolerated in place
    pub tolerate: Vec<String>,
    pub known_hits: Vec<String>,
    /// (directory, name) pairs whose existence is unknown after a failed mutating call
    pub uncertain: Vec<(NodeId, [u8; 11])>,
}

pub fn ek(e: &E) -> String {
    let s = format!("{:?}", e);
    match s.find('(') {
        Some(p) => s[..p].to_string(),
        None => s,
    }
}

pub fn panic_msg(p: &Box<dyn std::any::Any + Send>) -> (String, bool) {
    if p.downcast_ref::<BudgetExceeded>().is_some() {
        return ("device-call budget exceeded".into(), true);
    }
    let loc = crate::runner::last_panic_loc();
    if let Some(s) = p.downcast_ref::<&str>() {
        return (format!("{} at {}", s, loc), false);
    }
    if let Some(s) = p.downcast_ref::<String>() {
        return (format!("{} at {}", s, loc), false);
    }
    ("<non-string panic>".into(), false)
}

pub fn layout_for(pvols: &[PVol], slot: usize) -> Option<&Layout> {
    pvols.iter().find(|p| p.slot == slot).map(|p| &p.layout)
}

impl Interp {
    pub fn new(case: &Case, opts: Opts) -> Interp {
        // histories address files by 8.3 strings, which the parser upper-cases
        let (img, pvols) = mkfs::mkfs(&mkfs::with_upper_names(&case.disk));
        let disk = SimDisk::new(img);
        let clock = SimClock::new(case.clock0 % 1_000_000_000);
        let mut it = Interp {
            disk: disk.clone(),
            clock: clock.clone(),
            api: None,
            cfg: case.cfg as usize % 12,
            id_offset: case.id_offset,
            pvols,
            labelled: (0..4).map(|s| case.disk.vols.get(s).and_then(|v| v.as_ref()).map(|v| v.geom.label).unwrap_or(false)).collect(),
            nodes: Vec::new(),
            roots: vec![None; 4],
            vols: vec![],
            dirs: vec![],
            files: vec![],
            closed_vols: vec![],
            closed_dirs: vec![],
            closed_files: vec![],
            divs: vec![],
            stats: Stats::default(),
            opts,
            trace: vec![],
            step_no: 0,
            written_ranges: vec![],
            tolerate: vec![],
            known_hits: vec![],
            uncertain: vec![],
        };
        let pv = it.pvols.clone();
        for p in &pv {
            let id = it.add_pnode(&p.root, p.slot, None);
            it.roots[p.slot] = Some(id);
        }
        it.api = Some(api::make_mgr(it.cfg, disk, clock, case.id_offset));
        it
    }

    fn add_pnode(&mut self, p: &PNode, slot: usize, parent: Option<NodeId>) -> NodeId {
        let id = self.nodes.len();
        let is_root = parent.is_none();
        let mut cf = [0u8; 8];
        cf.copy_from_slice(&p.raw[12..20]);
        self.nodes.push(MNode {
            slot,
            parent,
            name: p.name,
            is_dir: p.is_dir,
            attr: p.attr,
            data: if p.is_dir { vec![] } else { content(p.seed, p.size) },
            children: vec![],
            deleted_names: vec![],
            alive: true,
            cfields: if is_root { None } else { Some(cf) },
            mtime: if is_root { None } else { Some((p.times.mdate, p.times.mtime)) },
            raw0: if is_root { None } else { Some(p.raw) },
            touched: false,
            tainted: false,
            flushed: None,
            created_in_history: false,
        });
        for c in &p.children {
            let cid = self.add_pnode(c, slot, Some(id));
            self.nodes[id].children.push(cid);
        }
        id
    }

    pub fn api(&self) -> &dyn Api {
        self.api.as_deref().unwrap()
    }

    pub fn path_of(&self, n: NodeId) -> String {
        let mut parts = Vec::new();
        let mut cur = n;
        while let Some(p) = self.nodes[cur].parent {
            parts.push(names::display_name(&self.nodes[cur].name));
            cur = p;
        }
        parts.reverse();
        format!("/{}", parts.join("/"))
    }

    pub fn cluster_bytes(&self, slot: usize) -> u32 {
        layout_for(&self.pvols, slot).map(|l| l.cluster_bytes()).unwrap_or(512)
    }

    fn div(&mut self, prop: &'static str, code: &'static str, detail: String) {
        self.divs.push(Divergence {
            prop,
            code,
            detail,
            step: self.step_no,
        });
    }

    fn pick<T>(v: &[T], raw: u16) -> Option<usize> {
        if v.is_empty() {
            None
        } else {
            Some(((raw as usize) * v.len()) >> 16)
        }
    }

    fn live_children(&self, dir: NodeId) -> Vec<NodeId> {
        self.nodes[dir].children.iter().copied().filter(|c| self.nodes[*c].alive).collect()
    }

    pub fn child_by_name(&self, dir: NodeId, name: &[u8; 11]) -> Option<NodeId> {
        self.nodes[dir]
            .children
            .iter()
            .copied()
            .find(|c| self.nodes[*c].alive && &self.nodes[*c].name == name)
    }

    fn resolve_name(&self, dir: NodeId, sel: &NameSel) -> String {
        match sel {
            NameSel::Existing(i) => {
                let kids = self.live_children(dir);
                match Self::pick(&kids, *i) {
                    Some(k) => names::display_name(&self.nodes[kids[k]].name),
                    None => NAME_POOL[*i as usize % NAME_POOL.len()].to_string(),
                }
            }
            NameSel::ExistingDir(i) => {
                let all = self.live_children(dir);
                let dirs: Vec<NodeId> = all.iter().copied().filter(|c| self.nodes[*c].is_dir).collect();
                let kids = if dirs.is_empty() { all } else { dirs };
                match Self::pick(&kids, *i) {
                    Some(k) => names::display_name(&self.nodes[kids[k]].name),
                    None => NAME_POOL[*i as usize % NAME_POOL.len()].to_string(),
                }
            }
            NameSel::Pool(i) => NAME_POOL[*i as usize % NAME_POOL.len()].to_string(),
            NameSel::Deleted(i) => {
                let d = &self.nodes[dir].deleted_names;
                match Self::pick(d, *i) {
                    Some(k) => names::display_name(&d[k]),
                    None => NAME_POOL[*i as usize % NAME_POOL.len()].to_string(),
                }
            }
            NameSel::Invalid(i) => INVALID_NAMES[*i as usize % INVALID_NAMES.len()].to_string(),
            NameSel::Fresh(i) => format!("F{}.TMP", i),
            NameSel::Dot => ".".to_string(),
            NameSel::DotDot => "..".to_string(),
        }
    }

    pub fn is_uncertain(&self, dir: NodeId, name: &str) -> bool {
        match names::ref_parse(name) {
            RefName::Valid(n) => self.uncertain.iter().any(|(d, x)| *d == dir && *x == n),
            _ => false,
        }
    }

    pub fn mark_uncertain(&mut self, dir: NodeId, name: &str) {
        if let RefName::Valid(n) = names::ref_parse(name) {
            if !self.uncertain.contains(&(dir, n)) {
                self.uncertain.push((dir, n));
            }
            if let Some(c) = self.child_by_name(dir, &n) {
                self.nodes[c].tainted = true;
            }
        }
    }

    fn is_open_node(&self, n: NodeId) -> bool {
        self.files.iter().any(|f| f.node == n)
    }

    fn all_handle_ids(&self) -> Vec<String> {
        let mut v = Vec::new();
        for x in &self.vols {
            v.push(format!("{:?}", x.h));
        }
        for x in &self.dirs {
            v.push(format!("{:?}", x.h));
        }
        for x in &self.files {
            v.push(format!("{:?}", x.h));
        }
        v
    }

    fn numeric_id(dbg: &str) -> String {
        // "RawFile(0x001389)" -> "0x001389"
        match (dbg.find('('), dbg.rfind(')')) {
            (Some(a), Some(b)) if b > a => dbg[a + 1..b].to_string(),
            _ => dbg.to_string(),
        }
    }

    fn check_new_handle(&mut self, dbg: String) {
        let id = Self::numeric_id(&dbg);
        let clash = self.all_handle_ids().iter().any(|h| Self::numeric_id(h) == id);
        if clash {
            self.div("C08", "handle-not-unique", format!("new handle {} equals a handle that is still open", dbg));
        }
    }

    /// Run one API call with panic capture.
    fn call<R>(&mut self, info: &mut StepInfo, f: impl FnOnce(&dyn Api) -> R) -> Option<R> {
        self.disk.begin_api_call();
        let fired0 = self.disk.0.borrow().faults_fired.len();
        let api = self.api.take().unwrap();
        let r = catch_unwind(AssertUnwindSafe(|| f(&*api)));
        self.api = Some(api);
        if self.disk.0.borrow().faults_fired.len() > fired0 {
            // an injected device fault fired inside this call, whatever variant it is reported as
            info.device_error = true;
        }
        match r {
            Ok(v) => Some(v),
            Err(p) => {
                let (m, budget) = panic_msg(&p);
                info.panicked = Some(m);
                info.budget_exceeded = budget;
                None
            }
        }
    }

    fn note_result<T>(&mut self, info: &mut StepInfo, r: &Result<T, E>) {
        match r {
            Ok(_) => info.ok = true,
            Err(e) => {
                let k = ek(e);
                if k == "DeviceError" {
                    info.device_error = true;
                }
                *self.stats.errors_by_variant.entry(k).or_insert(0) += 1;
                info.err = Some(format!("{:?}", e));
            }
        }
    }

    /// Compare an error against the admissible variant names.
    fn expect_err<T: std::fmt::Debug>(
        &mut self,
        info: &StepInfo,
        r: &Result<T, E>,
        allowed: &[&str],
        prop: &'static str,
        code: &'static str,
        what: &str,
    ) {
        if info.device_error && self.opts.faults {
            return;
        }
        match r {
            Ok(_) => self.div(prop, code, format!("{}: expected Err({}) but got Ok", what, allowed.join("|"))),
            Err(e) => {
                let k = ek(e);
                if !allowed.is_empty() && !allowed.contains(&k.as_str()) {
                    self.div(prop, code, format!("{}: expected Err({}) but got {:?}", what, allowed.join("|"), e));
                }
            }
        }
    }

    fn expect_ok<T>(&mut self, info: &StepInfo, r: &Result<T, E>, prop: &'static str, code: &'static str, what: &str) -> bool {
        match r {
            Ok(_) => true,
            Err(e) => {
                if !(info.device_error && self.opts.faults) {
                    self.div(prop, code, format!("{}: expected Ok but got {:?}", what, e));
                }
                false
            }
        }
    }

    pub fn free_count(&self, slot: usize) -> Option<u32> {
        let lay = layout_for(&self.pvols, slot)?.clone();
        Some(self.disk.with_img(|img| {
            let fv = crate::fsck::FatView::new(img, &lay);
            crate::fsck::free_count(&fv)
        }))
    }

    pub fn pending(&self) -> Vec<(usize, crate::fsck::Pending)> {
        let mut v = Vec::new();
        for f in &self.files {
            if let Some(st) = self.api().file_state(f.h) {
                v.push((
                    f.slot,
                    crate::fsck::Pending {
                        entry_block: st.entry_block,
                        entry_off: st.entry_off,
                        first: st.first,
                        size: st.size,
                    },
                ));
            }
        }
        v
    }

    pub fn step(&mut self, idx: usize, st: &Step) -> StepInfo {
        self.step_no = idx;
        let mut info = StepInfo {
            idx,
            kind: st.op.kind(),
            log_start: self.disk.log_len(),
            dev_start: self.disk.dev_calls(),
            ..Default::default()
        };
        self.clock.advance(st.tick);
        let surf = Surf::from_u8(st.surf);
        self.stats.ops += 1;
        *self.stats.by_kind.entry(st.op.kind()).or_insert(0) += 1;
        self.stats.surfaces[st.surf as usize % 3] += 1;
        self.exec(&mut info, &st.op, surf);
        info.log_end = self.disk.log_len();
        info.dev_end = self.disk.dev_calls();
        if info.skipped {
            self.stats.skipped += 1;
        }
        self.stats.max_files_open = self.stats.max_files_open.max(self.files.len());
        self.stats.max_vols_open = self.stats.max_vols_open.max(self.vols.len());
        if self.trace.len() < 4000 {
            self.trace.push(format!(
                "#{} {:?} surf={:?} -> {}{}",
                idx,
                st.op,
                surf,
                if info.skipped {
                    "skipped".to_string()
                } else if let Some(p) = &info.panicked {
                    format!("PANIC {}", p)
                } else if info.ok {
                    "Ok".to_string()
                } else {
                    format!("Err {}", info.err.clone().unwrap_or_default())
                },
                info.name.as_ref().map(|n| format!(" name={:?}", n)).unwrap_or_default()
            ));
        }
        info
    }

    fn panic_div(&mut self, info: &StepInfo) {
        if let Some(p) = &info.panicked {
            let code = if info.budget_exceeded { "call-did-not-terminate" } else { "panic" };
            self.div("ANY", code, format!("{} panicked: {}", info.kind, p));
        }
    }

    fn exec(&mut self, info: &mut StepInfo, op: &Op, surf: Surf) {
        let (max_d, max_f, max_v) = self.api().limits();
        // Productive degradation: an op that needs a handle of a kind that is
        // not open becomes the matching open call (counted under its own kind).
        let fsel = match op {
            Op::Close { f, .. } | Op::Flush { f } | Op::Read { f, .. } | Op::Write { f, .. } | Op::SeekStart { f, .. } | Op::SeekCur { f, .. } | Op::SeekEnd { f, .. } | Op::IoSeek { f, .. } | Op::Query { f } => Some(*f),
            _ => None,
        };
        let dsel = match op {
            Op::OpenDir { d, .. } | Op::ChangeDir { d, .. } | Op::CloseDir { d } | Op::Open { d, .. } | Op::Delete { d, .. } | Op::Mkdir { d, .. } | Op::Find { d, .. } | Op::List { d } | Op::ListLfn { d, .. } => Some(*d),
            _ => None,
        };
        if self.vols.is_empty() && (fsel.is_some() || dsel.is_some() || matches!(op, Op::OpenRoot { .. } | Op::CloseVolume { .. })) {
            let raw = fsel.or(dsel).unwrap_or(0);
            info.kind = "OpenVolume";
            return self.exec(info, &Op::OpenVolume { slot: (raw % 4) as u8 }, surf);
        }
        if self.dirs.is_empty() && (fsel.is_some() || dsel.is_some()) {
            info.kind = "OpenRoot";
            return self.exec(info, &Op::OpenRoot { v: fsel.or(dsel).unwrap_or(0) }, surf);
        }
        if let Some(f) = fsel {
            if self.files.is_empty() {
                info.kind = "Open";
                let name = if f & 1 == 1 { NameSel::Existing(f) } else { NameSel::Pool((f >> 1) as u8) };
                let mode = [5u8, 1, 4, 0, 5, 3, 2, 5][(f >> 3) as usize % 8];
                return self.exec_open(info, f, &name, mode, surf, max_f);
            }
        }
        match op {
            Op::OpenVolume { slot } => {
                let slot = *slot as usize;
                info.slot = Some(slot);
                let r = self.call(info, |a| a.open_volume(slot, surf));
                let Some(r) = r else { return self.panic_div(info) };
                self.note_result(info, &r);
                let what = format!("open_volume({})", slot);
                if self.vols.len() >= max_v {
                    self.expect_err(info, &r, &["TooManyOpenVolumes"], "C08", "volume-limit", &what);
                } else if self.vols.iter().any(|v| v.slot == slot) {
                    self.expect_err(info, &r, &["VolumeAlreadyOpen"], "C08", "volume-double-open", &what);
                } else if slot > 3 {
                    self.expect_err(info, &r, &["NoSuchVolume"], "C15", "no-such-volume", &what);
                } else if self.roots[slot].is_none() {
                    self.expect_err(info, &r, &[], "C15", "empty-slot-opened", &what);
                } else if self.expect_ok(info, &r, "C15", "valid-volume-rejected", &what) {
                    // handled below
                }
                if let Ok(h) = r {
                    self.check_new_handle(format!("{:?}", h));
                    if slot <= 3 && self.roots[slot].is_some() {
                        self.vols.push(OVol { h, slot });
                    } else {
                        // opened something the model does not know: close it again
                        let _ = self.call(info, |a| a.close_volume(h, Surf::Raw));
                    }
                }
            }
            Op::CloseVolume { v } => {
                let Some(i) = Self::pick(&self.vols, *v) else {
                    info.skipped = true;
                    return;
                };
                let h = self.vols[i].h;
                info.slot = Some(self.vols[i].slot);
                let in_use = self.dirs.iter().any(|d| d.vol == h) || self.files.iter().any(|f| f.vol == h);
                let r = self.call(info, |a| a.close_volume(h, surf));
                let Some(r) = r else { return self.panic_div(info) };
                self.note_result(info, &r);
                if surf == Surf::Io {
                    // dropped wrapper: result not observable; state follows the model
                    info.ok = !in_use;
                    info.refused = in_use;
                    if !in_use {
                        self.vols.remove(i);
                        self.closed_vols.push(h);
                    }
                    return;
                }
                if self.opts.faults && !in_use && info.device_error {
                    // like close_file, close_volume gives the slot back even when storing the
                    // information sector failed (the wrappers consume the handle in any case)
                    self.vols.remove(i);
                    self.closed_vols.push(h);
                    return;
                }
                if in_use {
                    self.expect_err(info, &r, &["VolumeStillInUse"], "C08", "close-volume-in-use", "close_volume");
                    info.refused = true;
                } else if self.expect_ok(info, &r, "C08", "close-volume", "close_volume") {
                    self.vols.remove(i);
                    self.closed_vols.push(h);
                }
                if r.is_ok() && in_use {
                    self.vols.remove(i);
                }
            }
            Op::OpenRoot { v } => {
                let Some(i) = Self::pick(&self.vols, *v) else {
                    info.skipped = true;
                    return;
                };
                let (h, slot) = (self.vols[i].h, self.vols[i].slot);
                info.slot = Some(slot);
                let r = self.call(info, |a| a.open_root_dir(h, surf));
                let Some(r) = r else { return self.panic_div(info) };
                self.note_result(info, &r);
                if self.dirs.len() >= max_d {
                    self.expect_err(info, &r, &["TooManyOpenDirs"], "C08", "dir-limit", "open_root_dir");
                } else {
                    self.expect_ok(info, &r, "C08", "open-root", "open_root_dir");
                }
                if let Ok(d) = r {
                    self.check_new_handle(format!("{:?}", d));
                    let node = self.roots[slot].unwrap();
                    self.dirs.push(ODir { h: d, vol: h, slot, node });
                }
            }
            Op::OpenDir { d, name } | Op::ChangeDir { d, name } => {
                let Some(i) = Self::pick(&self.dirs, *d) else {
                    info.skipped = true;
                    return;
                };
                let od = self.dirs[i].clone();
                info.slot = Some(od.slot);
                info.dir_node = Some(od.node);
                let nm = self.resolve_name(od.node, name);
                info.name = Some(nm.clone());
                let is_change = matches!(op, Op::ChangeDir { .. });
                // model expectation
                let target: Result<NodeId, &'static [&'static str]> = match names::ref_parse(&nm) {
                    RefName::Invalid => Err(&["FilenameError"]),
                    RefName::DontCare => Err(&[]),
                    RefName::Valid(n11) => {
                        if &n11 == b".          " {
                            Ok(od.node)
                        } else if &n11 == b"..         " {
                            match self.nodes[od.node].parent {
                                Some(p) => Ok(p),
                                None => Err(&["NotFound"]),
                            }
                        } else {
                            match self.child_by_name(od.node, &n11) {
                                // only the volume label carries the name: listed, found, not a directory
                                None if self.nodes[od.node].parent.is_none() && self.labelled[od.slot] && &n11 == mkfs::LABEL_NAME => Err(&["OpenedFileAsDir"]),
                                None => Err(&["NotFound"]),
                                Some(c) if self.nodes[c].is_dir => Ok(c),
                                Some(_) => Err(&["OpenedFileAsDir"]),
                            }
                        }
                    }
                };
                let full = self.dirs.len() >= max_d;
                if self.opts.faults && self.is_uncertain(od.node, &nm) {
                    let r = self.call(info, |a| a.open_dir(od.h, &nm, Surf::Raw));
                    if let Some(Ok(h)) = r {
                        let _ = self.call(info, |a| a.close_dir(h, Surf::Raw));
                    }
                    return;
                }
                if is_change {
                    let r = self.call(info, |a| a.change_dir(od.h, &nm));
                    let Some((newh, r)) = r else { return self.panic_div(info) };
                    self.note_result(info, &r);
                    if full {
                        self.expect_err(info, &r, &["TooManyOpenDirs"], "C08", "dir-limit", "change_dir");
                    } else {
                        match target {
                            Ok(_) => {
                                self.expect_ok(info, &r, "C06", "open-dir", &format!("change_dir({:?})", nm));
                            }
                            Err(allowed) => {
                                let prop = if allowed == ["NotFound"] { "C06" } else { "C07" };
                                self.expect_err(info, &r, allowed, prop, "open-dir-refusal", &format!("change_dir({:?})", nm));
                            }
                        }
                    }
                    if r.is_ok() {
                        if let Ok(t) = target {
                            self.check_new_handle(format!("{:?}", newh));
                            self.closed_dirs.push(od.h);
                            self.dirs[i] = ODir { h: newh, vol: od.vol, slot: od.slot, node: t };
                        } else {
                            // unknown target: drop the handle from the model's view
                            self.dirs.remove(i);
                            let _ = self.call(info, |a| a.close_dir(newh, Surf::Raw));
                        }
                    } else if newh != od.h {
                        self.div("C08", "change-dir-handle", "change_dir failed but replaced the handle".into());
                    }
                    return;
                }
                let r = self.call(info, |a| a.open_dir(od.h, &nm, surf));
                let Some(r) = r else { return self.panic_div(info) };
                self.note_result(info, &r);
                let what = format!("open_dir({:?})", nm);
                if full {
                    self.expect_err(info, &r, &["TooManyOpenDirs"], "C08", "dir-limit", &what);
                } else {
                    match target {
                        Ok(_) => {
                            self.expect_ok(info, &r, "C06", "open-dir", &what);
                        }
                        Err(allowed) => {
                            info.refused = true;
                            let prop = if allowed == ["NotFound"] { "C06" } else { "C07" };
                            self.expect_err(info, &r, allowed, prop, "open-dir-refusal", &what);
                        }
                    }
                }
                if let Ok(h) = r {
                    self.check_new_handle(format!("{:?}", h));
                    match target {
                        Ok(t) if !full => self.dirs.push(ODir { h, vol: od.vol, slot: od.slot, node: t }),
                        _ => {
                            let _ = self.call(info, |a| a.close_dir(h, Surf::Raw));
                        }
                    }
                }
            }
            Op::CloseDir { d } => {
                let Some(i) = Self::pick(&self.dirs, *d) else {
                    info.skipped = true;
                    return;
                };
                let h = self.dirs[i].h;
                info.slot = Some(self.dirs[i].slot);
                let r = self.call(info, |a| a.close_dir(h, surf));
                let Some(r) = r else { return self.panic_div(info) };
                self.note_result(info, &r);
                self.expect_ok(info, &r, "C08", "close-dir", "close_dir");
                self.dirs.remove(i);
                self.closed_dirs.push(h);
            }
            Op::Open { d, name, mode } => self.exec_open(info, *d, name, *mode, surf, max_f),
            Op::Close { f, drop_only } => {
                let Some(i) = Self::pick(&self.files, *f) else {
                    info.skipped = true;
                    return;
                };
                let of = self.files[i].clone();
                info.slot = Some(of.slot);
                info.file_node = Some(of.node);
                info.file_pre = self.api().file_state(of.h);
                let drop_only = *drop_only;
                let r = self.call(info, |a| a.close_file(of.h, surf, drop_only));
                let Some(r) = r else { return self.panic_div(info) };
                self.note_result(info, &r);
                let observable = surf == Surf::Raw || !drop_only;
                if observable {
                    self.expect_ok(info, &r, "C02", "close-failed", "close_file");
                }
                info.closed_file = true;
                if r.is_ok() {
                    info.flushed_ok = true;
                    let n = of.node;
                    self.nodes[n].flushed = Some(self.nodes[n].data.clone());
                } else {
                    self.nodes[of.node].tainted = true;
                }
                self.files.remove(i);
                self.closed_files.push(of.h);
            }
            Op::Flush { f } => {
                let Some(i) = Self::pick(&self.files, *f) else {
                    info.skipped = true;
                    return;
                };
                let of = self.files[i].clone();
                info.slot = Some(of.slot);
                info.file_node = Some(of.node);
                info.file_pre = self.api().file_state(of.h);
                let r = self.call(info, |a| a.flush(of.h, surf));
                let Some(r) = r else { return self.panic_div(info) };
                self.note_result(info, &r);
                if self.expect_ok(info, &r, "C02", "flush-failed", "flush_file") {
                    info.flushed_ok = true;
                    self.files[i].dirty = false;
                    let n = of.node;
                    self.nodes[n].flushed = Some(self.nodes[n].data.clone());
                    let of2 = self.files[i].clone();
                    self.query_file(info, &of2, Surf::Raw);
                } else {
                    self.nodes[of.node].tainted = true;
                }
                info.file_post = self.api().file_state(of.h);
            }
            Op::Read { f, len } => {
                let Some(i) = Self::pick(&self.files, *f) else {
                    info.skipped = true;
                    return;
                };
                let of = self.files[i].clone();
                info.slot = Some(of.slot);
                info.file_node = Some(of.node);
                let n = len.resolve(self.cluster_bytes(of.slot));
                let mut buf = vec![0xEEu8; n];
                let r = self.call(info, |a| {
                    let r = a.read(of.h, &mut buf, surf);
                    (r, buf)
                });
                let Some((r, buf)) = r else { return self.panic_div(info) };
                self.note_result(info, &r);
                let data_len = self.nodes[of.node].data.len();
                let exp = n.min(data_len - of.off as usize);
                match r {
                    Ok(got) => {
                        if self.nodes[of.node].tainted {
                            // contents unknown after a failed mutating call; keep offsets in sync only
                            if let Ok(o) = self.api().offset(of.h, Surf::Raw) {
                                self.files[i].off = o;
                            }
                            return;
                        }
                        if got != exp {
                            self.div("C01", "read-len", format!("{} read({}) at {} of {} returned {} expected {}", self.path_of(of.node), n, of.off, data_len, got, exp));
                        }
                        let m = got.min(exp);
                        let want = &self.nodes[of.node].data[of.off as usize..of.off as usize + m];
                        if buf[..m] != *want {
                            let p = buf[..m].iter().zip(want.iter()).position(|(a, b)| a != b).unwrap();
                            self.div("C01", "read-data", format!("{} read at offset {}: byte {} is {:#04x}, model has {:#04x}", self.path_of(of.node), of.off, of.off as usize + p, buf[p], want[p]));
                        }
                        if buf[got.min(n)..].iter().any(|b| *b != 0xEE) {
                            self.div("C01", "read-overrun", "read wrote past the reported length".into());
                        }
                        if self.written_ranges.iter().any(|(nn, a, b)| *nn == of.node && (of.off as u64) < *b as u64 && (*a as u64) < of.off as u64 + got as u64) {
                            self.stats.read_after_write_overlap = true;
                        }
                        self.files[i].off = of.off + got as u32;
                        // offset / length / end-of-file as reported after the read
                        let of2 = self.files[i].clone();
                        self.query_file(info, &of2, Surf::Raw);
                    }
                    Err(_) => {
                        self.expect_ok(info, &r, "C01", "read-failed", "read");
                        if let Ok(o) = self.api().offset(of.h, Surf::Raw) {
                            self.files[i].off = o;
                        }
                    }
                }
            }
            Op::Write { f, len, seed } => self.exec_write(info, *f, len, *seed, surf),
            Op::SeekStart { f, to } => {
                let Some(i) = Self::pick(&self.files, *f) else {
                    info.skipped = true;
                    return;
                };
                let of = self.files[i].clone();
                info.file_node = Some(of.node);
                info.slot = Some(of.slot);
                let len = self.nodes[of.node].data.len() as u32;
                let x = to.resolve(len, self.cluster_bytes(of.slot));
                let r = self.call(info, |a| a.seek_start(of.h, x, surf));
                let Some(r) = r else { return self.panic_div(info) };
                self.note_result(info, &r);
                self.seek_outcome(info, i, &r.map(|_| ()), if x <= len { Some(x) } else { None }, &format!("seek_from_start({})", x));
            }
            Op::SeekCur { f, to, raw } => {
                let Some(i) = Self::pick(&self.files, *f) else {
                    info.skipped = true;
                    return;
                };
                let of = self.files[i].clone();
                info.file_node = Some(of.node);
                info.slot = Some(of.slot);
                let len = self.nodes[of.node].data.len() as u32;
                let delta: i64 = match raw {
                    Some(r) => *r as i64,
                    None => to.resolve(len, self.cluster_bytes(of.slot)) as i64 - of.off as i64,
                };
                let delta = delta.clamp(i32::MIN as i64, i32::MAX as i64) as i32;
                let r = self.call(info, |a| a.seek_cur(of.h, delta, surf));
                let Some(r) = r else { return self.panic_div(info) };
                self.note_result(info, &r);
                let t = of.off as i64 + delta as i64;
                let exp = if t >= 0 && t <= len as i64 { Some(t as u32) } else { None };
                self.seek_outcome(info, i, &r, exp, &format!("seek_from_current({})", delta));
            }
            Op::SeekEnd { f, back } => {
                let Some(i) = Self::pick(&self.files, *f) else {
                    info.skipped = true;
                    return;
                };
                let of = self.files[i].clone();
                info.file_node = Some(of.node);
                info.slot = Some(of.slot);
                let len = self.nodes[of.node].data.len() as u32;
                let x = back.resolve(len, self.cluster_bytes(of.slot));
                let r = self.call(info, |a| a.seek_end(of.h, x, surf));
                let Some(r) = r else { return self.panic_div(info) };
                self.note_result(info, &r);
                self.seek_outcome(info, i, &r, if x <= len { Some(len - x) } else { None }, &format!("seek_from_end({})", x));
            }
            Op::IoSeek { f, whence, to, raw } => {
                let Some(i) = Self::pick(&self.files, *f) else {
                    info.skipped = true;
                    return;
                };
                let of = self.files[i].clone();
                info.file_node = Some(of.node);
                info.slot = Some(of.slot);
                let len = self.nodes[of.node].data.len() as u32;
                let target = to.resolve(len, self.cluster_bytes(of.slot)) as i64;
                let w = whence % 3;
                let off: i64 = match raw {
                    Some(r) => *r,
                    None => match w {
                        0 => target,
                        1 => target - len as i64, // End(-n): n bytes before the end
                        _ => target - of.off as i64,
                    },
                };
                let r = self.call(info, |a| a.io_seek(of.h, w, off));
                let Some(r) = r else { return self.panic_div(info) };
                self.note_result(info, &r);
                // documented semantics: Start(n) absolute, End(-n) n bytes back from the end, Current(d) relative
                let t: i128 = match w {
                    0 => (off as u64) as i128,
                    1 => len as i128 + off as i128,
                    _ => of.off as i128 + off as i128,
                };
                let exp = if t >= 0 && t <= len as i128 && (w != 2 || (off >= i32::MIN as i64 && off <= i32::MAX as i64)) {
                    Some(t as u32)
                } else {
                    None
                };
                if let (Ok(p), Some(e)) = (&r, exp) {
                    if *p != e as u64 {
                        self.div("C01", "io-seek-result", format!("Seek returned {} expected {}", p, e));
                    }
                }
                self.seek_outcome(info, i, &r.map(|_| ()), exp, &format!("Seek::seek(whence {}, {})", w, off));
            }
            Op::Query { f } => {
                let Some(i) = Self::pick(&self.files, *f) else {
                    info.skipped = true;
                    return;
                };
                let of = self.files[i].clone();
                info.file_node = Some(of.node);
                self.query_file(info, &of, surf);
            }
            Op::Delete { d, name } => self.exec_delete(info, *d, name, surf),
            Op::Mkdir { d, name } => self.exec_mkdir(info, *d, name, surf, max_d),
            Op::Find { d, name } => self.exec_find(info, *d, name, surf),
            Op::List { d } => self.exec_list(info, *d, surf, None),
            Op::ListLfn { d, cap } => self.exec_list(info, *d, surf, Some(*cap as usize)),
            Op::HasOpen => {
                let r = self.call(info, |a| a.has_open_handles());
                let Some(r) = r else { return self.panic_div(info) };
                info.ok = true;
                let exp = !self.dirs.is_empty() || !self.files.is_empty();
                if r != exp {
                    self.div("C08", "has-open-handles", format!("has_open_handles() = {} with {} directories and {} files open", r, self.dirs.len(), self.files.len()));
                }
            }
            Op::LongHistory { which, back } => {
                let ids: Vec<u32> = self
                    .all_handle_ids()
                    .iter()
                    .filter_map(|h| u32::from_str_radix(Self::numeric_id(h).trim_start_matches("0x"), 16).ok())
                    .collect();
                let Some(i) = Self::pick(&ids, *which) else {
                    info.skipped = true;
                    return;
                };
                let next = ids[i].wrapping_sub(*back as u32);
                self.api.as_ref().unwrap().set_next_handle_id(next);
                info.ok = true;
                info.state_class = Some("counter-came-round-to-open-handle");
            }
            Op::Label { v } => {
                let Some(i) = Self::pick(&self.vols, *v) else {
                    info.skipped = true;
                    return;
                };
                let h = self.vols[i].h;
                let slot = self.vols[i].slot;
                info.slot = Some(slot);
                let full = self.dirs.len() >= max_d;
                let r = self.call(info, |a| a.label(h));
                let Some(r) = r else { return self.panic_div(info) };
                self.note_result(info, &r);
                // the formatter writes the label both into the boot sector and into the root
                // directory, or (label = false) leaves the boot-sector field blank and the root without one
                let has_label = self.pvols.iter().find(|p| p.slot == slot).map(|p| p.root.children.len() != usize::MAX).is_some()
                    && self.disk.with_img(|img| {
                        let lay = layout_for(&self.pvols, slot).unwrap();
                        let b = crate::simdisk::Img::rd(img, lay.part_start);
                        let off = if lay.fat32 { 71 } else { 43 };
                        b[off..off + 11].iter().any(|c| *c != b' ')
                    });
                match &r {
                    Ok(Some(l)) => {
                        if !has_label || l != mkfs::LABEL_NAME {
                            self.div("C06", "volume-label", format!("get_root_volume_label = {:?}", String::from_utf8_lossy(l)));
                        }
                    }
                    Ok(None) => {
                        if has_label {
                            self.div("C06", "volume-label", "get_root_volume_label = None on a labelled volume".into());
                        }
                    }
                    Err(e) => {
                        // the fall-back path needs a free directory slot
                        let k = ek(e);
                        if !(full && k == "TooManyOpenDirs") && !(info.device_error && self.opts.faults) {
                            self.div("C08", "volume-label-failed", format!("get_root_volume_label failed: {:?}", e));
                        }
                    }
                }
            }
            Op::CheckAll => self.check_all(info),
            Op::Remount => self.remount(info),
            Op::Stale { .. } | Op::Reenter { .. } => {
                crate::handles::exec_special(self, info, op, surf);
            }
        }
    }

    fn seek_outcome(&mut self, info: &mut StepInfo, i: usize, r: &Result<(), E>, exp: Option<u32>, what: &str) {
        let old = self.files[i].off;
        match exp {
            Some(x) => {
                if self.expect_ok(info, r, "C01", "seek-refused", what) {
                    if x < old {
                        self.stats.backwards_seek = true;
                    }
                    self.files[i].off = x;
                }
            }
            None => {
                self.expect_err(info, r, &["InvalidOffset"], "C01", "seek-accepted", what);
                if r.is_ok() {
                    if let Ok(o) = self.api().offset(self.files[i].h, Surf::Raw) {
                        self.files[i].off = o.min(self.nodes[self.files[i].node].data.len() as u32);
                    }
                }
            }
        }
        let of = self.files[i].clone();
        self.query_file(info, &of, Surf::Raw);
    }

    pub fn query_file(&mut self, info: &mut StepInfo, of: &OFile, surf: Surf) {
        let r = self.call(info, |a| (a.length(of.h, surf), a.offset(of.h, surf), a.eof(of.h, surf)));
        let Some((l, o, e)) = r else { return self.panic_div(info) };
        if self.nodes[of.node].tainted {
            // contents/length unknown after a failed mutating call: follow the implementation
            if let (Ok(l), Ok(o)) = (&l, &o) {
                let n = of.node;
                self.nodes[n].data.resize(*l as usize, 0);
                if let Some(f) = self.files.iter_mut().find(|f| f.h == of.h) {
                    f.off = *o;
                }
            }
            return;
        }
        let len = self.nodes[of.node].data.len() as u32;
        match l {
            Ok(x) if x == len => {}
            other => self.div("C01", "length", format!("{} file_length = {:?}, model {}", self.path_of(of.node), other, len)),
        }
        match o {
            Ok(x) if x == of.off => {}
            other => self.div("C01", "offset", format!("{} file_offset = {:?}, model {}", self.path_of(of.node), other, of.off)),
        }
        match e {
            Ok(x) if x == (of.off == len) => {}
            other => self.div("C01", "eof", format!("{} file_eof = {:?}, model offset {} length {}", self.path_of(of.node), other, of.off, len)),
        }
        if info.kind == "Query" {
            info.ok = true;
        }
    }

    fn exec_open(&mut self, info: &mut StepInfo, d: u16, name: &NameSel, mode: u8, surf: Surf, max_f: usize) {
        let Some(i) = Self::pick(&self.dirs, d) else {
            info.skipped = true;
            return;
        };
        let od = self.dirs[i].clone();
        info.slot = Some(od.slot);
        info.dir_node = Some(od.node);
        let nm = self.resolve_name(od.node, name);
        info.name = Some(nm.clone());
        let mode = mode % 6;
        info.mode = Some(mode);
        let m = api::mode_from_u8(mode);
        let create_mode = matches!(mode, 3 | 4 | 5);
        if self.opts.track_space {
            info.free_before = self.free_count(od.slot);
        }
        let parsed = names::ref_parse(&nm);
        let r = self.call(info, |a| a.open_file(od.h, &nm, m, surf));
        let Some(r) = r else { return self.panic_div(info) };
        self.note_result(info, &r);
        if self.opts.faults {
            if self.is_uncertain(od.node, &nm) {
                // existence unknown: only keep the implementation's handle table clean
                if let Ok(h) = r {
                    let cr = self.call(info, |a| a.close_file(h, Surf::Raw, false));
                    // this step contained a close (which may store the information sector); if
                    // that close failed, the step as a whole reports the failure
                    info.closed_file = true;
                    if let Some(cr @ Err(_)) = cr {
                        self.note_result(info, &cr);
                        info.ok = false;
                    }
                }
                return;
            }
            if info.device_error {
                if create_mode || mode == 2 {
                    self.mark_uncertain(od.node, &nm);
                }
                return;
            }
        }
        let what = format!("open_file_in_dir({:?}, {:?})", nm, m);
        let full = self.files.len() >= max_f;
        let now = tick_to_fat(self.clock.get());
        enum X {
            Err(&'static [&'static str]),
            OkExisting(NodeId),
            OkCreate([u8; 11]),
            Skip,
        }
        let x = if full {
            info.state_class = Some("table-full");
            X::Err(&["TooManyOpenFiles"])
        } else {
            match parsed {
                RefName::Invalid => {
                    info.state_class = Some("invalid-name");
                    X::Err(&["FilenameError"])
                }
                RefName::DontCare => X::Skip,
                RefName::Valid(n11) => match self.child_by_name(od.node, &n11) {
                    None => {
                        if n11[0] == b'.' {
                            if self.nodes[od.node].parent.is_some() {
                                // every sub-directory holds "." and "..": they are directories
                                info.state_class = Some("directory");
                                X::Err(&[])
                            } else if create_mode {
                                // the root directory has no such entries, and none can be made: "."
                                // and ".." (and "", which the parser maps to ".") are not file names
                                info.state_class = Some("dot-name-in-root");
                                X::Err(&[])
                            } else {
                                // the root directory has no such entries
                                info.state_class = Some("missing");
                                X::Err(&["NotFound"])
                            }
                        } else if create_mode {
                            info.state_class = Some("missing");
                            X::OkCreate(n11)
                        } else {
                            info.state_class = Some("missing");
                            X::Err(&["NotFound"])
                        }
                    }
                    Some(c) => {
                        let node = &self.nodes[c];
                        if self.is_open_node(c) {
                            info.state_class = Some("already-open");
                            if mode == 3 {
                                X::Err(&[])
                            } else {
                                X::Err(&["FileAlreadyOpen"])
                            }
                        } else if node.is_dir {
                            info.state_class = Some("directory");
                            X::Err(&[])
                        } else if mode == 3 {
                            info.state_class = Some(if node.attr & 1 != 0 { "read-only-file" } else { "file" });
                            if node.attr & 1 != 0 {
                                X::Err(&[])
                            } else {
                                X::Err(&["FileAlreadyExists"])
                            }
                        } else if node.attr & 1 != 0 && mode != 0 {
                            info.state_class = Some("read-only-file");
                            X::Err(&["ReadOnly"])
                        } else {
                            info.state_class = Some(if node.attr & 1 != 0 { "read-only-file" } else { "file" });
                            X::OkExisting(c)
                        }
                    }
                },
            }
        };
        match x {
            X::Skip => {
                if let Ok(h) = r {
                    let _ = self.call(info, |a| a.close_file(h, Surf::Raw, false));
                }
            }
            X::Err(allowed) => {
                info.refused = true;
                let prop = if allowed == ["TooManyOpenFiles"] { "C08" } else { "C07" };
                self.expect_err(info, &r, allowed, prop, "open-refusal", &what);
                if let Ok(h) = r {
                    // keep the implementation usable: forget the unexpected handle
                    let _ = self.call(info, |a| a.close_file(h, Surf::Raw, false));
                }
            }
            X::OkExisting(c) => {
                if let Err(e) = &r {
                    let k = ek(e);
                    if mode == 2 || mode == 4 {
                        // truncation may legitimately fail only on device errors
                    }
                    if !(info.device_error && self.opts.faults) {
                        self.div("C07", "open-existing-failed", format!("{}: expected Ok, got {}", what, k));
                    }
                    return;
                }
                let h = r.unwrap();
                self.check_new_handle(format!("{:?}", h));
                let len = self.nodes[c].data.len() as u32;
                let (off, writable) = match mode {
                    0 => (0, false),
                    1 | 5 => (len, true),
                    _ => {
                        // truncate
                        self.nodes[c].data.clear();
                        self.nodes[c].mtime = Some(now);
                        self.nodes[c].touched = true;
                        self.nodes[c].flushed = None;
                        info.truncated = true;
                        self.stats.truncates += 1;
                        (0, true)
                    }
                };
                if writable {
                    self.nodes[c].touched = true;
                }
                info.file_node = Some(c);
                let of = OFile { h, vol: od.vol, slot: od.slot, node: c, off, writable, dirty: false };
                self.files.push(of.clone());
                self.query_file(info, &of, Surf::Raw);
            }
            X::OkCreate(n11) => {
                match &r {
                    Err(e) => {
                        let k = ek(e);
                        if k == "NotEnoughSpace" || k == "DiskFull" {
                            info.space_error = true;
                            self.stats.space_errors += 1;
                        } else if !(info.device_error && self.opts.faults) {
                            self.div("C07", "create-failed", format!("{}: expected Ok, got {:?}", what, e));
                        }
                    }
                    Ok(h) => {
                        self.check_new_handle(format!("{:?}", h));
                        let id = self.nodes.len();
                        if self.nodes[od.node].deleted_names.contains(&n11) {
                            self.stats.delete_then_create = true;
                        }
                        self.nodes.push(MNode {
                            slot: od.slot,
                            parent: Some(od.node),
                            name: n11,
                            is_dir: false,
                            attr: 0,
                            data: vec![],
                            children: vec![],
                            deleted_names: vec![],
                            alive: true,
                            cfields: Some({
                                let mut c = [0u8; 8];
                                c[2..4].copy_from_slice(&now.1.to_le_bytes());
                                c[4..6].copy_from_slice(&now.0.to_le_bytes());
                                c
                            }),
                            mtime: Some(now),
                            raw0: None,
                            touched: true,
                            tainted: false,
                            flushed: Some(vec![]),
                            created_in_history: true,
                        });
                        self.nodes[od.node].children.push(id);
                        self.nodes[od.node].touched = true;
                        info.created = true;
                        info.file_node = Some(id);
                        let of = OFile { h: *h, vol: od.vol, slot: od.slot, node: id, off: 0, writable: true, dirty: false };
                        self.files.push(of.clone());
                        self.query_file(info, &of, Surf::Raw);
                    }
                }
            }
        }
    }

    fn exec_write(&mut self, info: &mut StepInfo, f: u16, len: &crate::ops::LenSel, seed: u32, surf: Surf) {
        let Some(i) = Self::pick(&self.files, f) else {
            info.skipped = true;
            return;
        };
        let of = self.files[i].clone();
        info.slot = Some(of.slot);
        info.file_node = Some(of.node);
        let cb = self.cluster_bytes(of.slot);
        let n = len.resolve(cb);
        let buf = content(seed, n as u32);
        info.file_pre = self.api().file_state(of.h);
        if self.opts.track_space {
            info.free_before = self.free_count(of.slot);
        }
        let r = self.call(info, |a| a.write(of.h, &buf, surf));
        let Some(r) = r else { return self.panic_div(info) };
        self.note_result(info, &r);
        info.file_post = self.api().file_state(of.h);
        if !of.writable {
            info.refused = true;
            // the embedded-io adapter short-cuts empty buffers
            if surf == Surf::Io && n == 0 {
                return;
            }
            self.expect_err(info, &r, &["ReadOnly"], "C07", "write-on-read-only-handle", "write");
            return;
        }
        let now = tick_to_fat(self.clock.get());
        let old_len = self.nodes[of.node].data.len();
        match &r {
            Ok(claimed) => {
                if *claimed != n {
                    self.div("C01", "write-count", format!("write of {} bytes reported {}", n, claimed));
                }
                if !(surf == Surf::Io && n == 0) {
                    let node = &mut self.nodes[of.node];
                    let off = of.off as usize;
                    if node.data.len() < off + n {
                        node.data.resize(off + n, 0);
                    }
                    node.data[off..off + n].copy_from_slice(&buf);
                    if n > 0 {
                        // a call that stores no byte is not "the last write", on any surface
                        node.mtime = Some(now);
                        node.attr |= 0x20;
                    }
                    node.touched = true;
                    self.files[i].off = of.off + n as u32;
                    self.files[i].dirty = true;
                    info.write = Some((of.off, n, n));
                    self.written_ranges.push((of.node, of.off, of.off + n as u32));
                    if self.written_ranges.len() > 64 {
                        self.written_ranges.remove(0);
                    }
                    // classification
                    if n > 0 {
                        if of.off % 512 != 0 {
                            self.stats.midblock_write = true;
                        }
                        if of.off % 512 == 0 && n % 512 != 0 && (of.off as usize + n) < old_len {
                            self.stats.short_write_at_block_start = true;
                        }
                        if (of.off / cb) != ((of.off + n as u32 - 1) / cb) {
                            self.stats.cross_cluster_write = true;
                        }
                        if of.off as usize == old_len && old_len > 0 {
                            self.stats.extend_after_seek_end = true;
                        }
                        if let Some(prev) = self.stats.last_written_file {
                            if prev != of.node && self.is_open_node(prev) {
                                self.stats.alternating_files = true;
                            }
                        }
                        self.stats.last_written_file = Some(of.node);
                    }
                }
            }
            Err(e) => {
                let k = ek(e);
                // how much was accepted is defined by the reported offset
                let new_off = self.api().offset(of.h, Surf::Raw).unwrap_or(of.off);
                let new_len = self.api().length(of.h, Surf::Raw).unwrap_or(old_len as u32);
                let accepted = new_off.saturating_sub(of.off) as usize;
                if k == "DiskFull" || k == "NotEnoughSpace" {
                    info.space_error = true;
                    self.stats.space_errors += 1;
                } else if info.device_error && self.opts.faults {
                    self.nodes[of.node].tainted = true;
                } else {
                    self.div("C01", "write-failed", format!("write({}) at {} failed with {:?}", n, of.off, e));
                }
                if accepted > n || new_off < of.off {
                    self.div("C05", "failed-write-offset", format!("after failed write of {} at {} the offset is {}", n, of.off, new_off));
                } else {
                    let node = &mut self.nodes[of.node];
                    let off = of.off as usize;
                    if node.data.len() < off + accepted {
                        node.data.resize(off + accepted, 0);
                    }
                    node.data[off..off + accepted].copy_from_slice(&buf[..accepted]);
                    node.touched = true;
                    if info.device_error && self.opts.faults {
                        node.mtime = None; // write cut short by a device error: time not compared
                    } else if accepted > 0 {
                        // the write ran out of space but stored something: it is the last write
                        node.mtime = Some(now);
                        node.attr |= 0x20;
                    }
                    self.files[i].off = new_off;
                    self.files[i].dirty = true;
                    info.write = Some((of.off, n, accepted));
                    if new_len as usize != self.nodes[of.node].data.len() {
                        self.div("C05", "failed-write-length", format!("after failed write length is {} but offset arithmetic gives {}", new_len, self.nodes[of.node].data.len()));
                        self.nodes[of.node].tainted = true;
                    }
                }
            }
        }
        let of2 = self.files[i].clone();
        self.query_file(info, &of2, Surf::Raw);
    }

    fn exec_delete(&mut self, info: &mut StepInfo, d: u16, name: &NameSel, surf: Surf) {
        let Some(i) = Self::pick(&self.dirs, d) else {
            info.skipped = true;
            return;
        };
        let od = self.dirs[i].clone();
        info.slot = Some(od.slot);
        info.dir_node = Some(od.node);
        let nm = self.resolve_name(od.node, name);
        info.name = Some(nm.clone());
        let parsed = names::ref_parse(&nm);
        let r = self.call(info, |a| a.delete(od.h, &nm, surf));
        let Some(r) = r else { return self.panic_div(info) };
        self.note_result(info, &r);
        if self.opts.faults {
            if self.is_uncertain(od.node, &nm) {
                return;
            }
            if info.device_error {
                self.mark_uncertain(od.node, &nm);
                return;
            }
        }
        let what = format!("delete_file_in_dir({:?})", nm);
        match parsed {
            RefName::DontCare => {}
            RefName::Invalid => {
                info.refused = true;
                info.state_class = Some("invalid-name");
                self.expect_err(info, &r, &["FilenameError"], "C07", "delete-refusal", &what);
            }
            RefName::Valid(n11) => match self.child_by_name(od.node, &n11) {
                None => {
                    info.refused = true;
                    info.state_class = Some("missing");
                    if n11[0] == b'.' && self.nodes[od.node].parent.is_some() {
                        self.expect_err(info, &r, &["DeleteDirAsFile"], "C07", "delete-refusal", &what);
                    } else {
                        self.expect_err(info, &r, &["NotFound"], "C07", "delete-refusal", &what);
                    }
                }
                Some(c) if self.nodes[c].is_dir => {
                    info.refused = true;
                    info.state_class = Some("directory");
                    self.expect_err(info, &r, &["DeleteDirAsFile"], "C07", "delete-refusal", &what);
                }
                Some(c) if self.is_open_node(c) => {
                    info.refused = true;
                    info.state_class = Some("already-open");
                    self.expect_err(info, &r, &["FileAlreadyOpen"], "C07", "delete-refusal", &what);
                }
                Some(c) => {
                    info.state_class = Some("file");
                    info.file_node = Some(c);
                    if self.expect_ok(info, &r, "C07", "delete-failed", &what) {
                        self.nodes[c].alive = false;
                        self.nodes[c].touched = true;
                        self.nodes[od.node].deleted_names.push(n11);
                        self.nodes[od.node].touched = true;
                        info.deleted = true;
                    } else {
                        self.nodes[c].tainted = true;
                    }
                }
            },
        }
    }

    fn exec_mkdir(&mut self, info: &mut StepInfo, d: u16, name: &NameSel, surf: Surf, max_d: usize) {
        let Some(i) = Self::pick(&self.dirs, d) else {
            info.skipped = true;
            return;
        };
        let od = self.dirs[i].clone();
        info.slot = Some(od.slot);
        info.dir_node = Some(od.node);
        let nm = self.resolve_name(od.node, name);
        info.name = Some(nm.clone());
        let parsed = names::ref_parse(&nm);
        if self.opts.track_space {
            info.free_before = self.free_count(od.slot);
        }
        let r = self.call(info, |a| a.mkdir(od.h, &nm, surf));
        let Some(r) = r else { return self.panic_div(info) };
        self.note_result(info, &r);
        if self.opts.faults {
            if self.is_uncertain(od.node, &nm) {
                return;
            }
            if info.device_error {
                self.mark_uncertain(od.node, &nm);
                return;
            }
        }
        let what = format!("make_dir_in_dir({:?})", nm);
        let now = tick_to_fat(self.clock.get());
        match parsed {
            RefName::DontCare => {}
            RefName::Invalid => {
                info.refused = true;
                self.expect_err(info, &r, &["FilenameError"], "C07", "mkdir-refusal", &what);
            }
            RefName::Valid(n11) if n11[0] == b'.' => {
                // "." and ".." exist in every sub-directory and cannot be made in a root
                info.refused = true;
                let allowed: &[&str] = if self.nodes[od.node].parent.is_some() { &["DirAlreadyExists"] } else { &[] };
                self.expect_err(info, &r, allowed, "C07", "mkdir-refusal", &what);
            }
            RefName::Valid(n11) => match self.child_by_name(od.node, &n11) {
                Some(c) => {
                    info.refused = true;
                    let allowed: &[&str] = if self.nodes[c].is_dir { &["DirAlreadyExists"] } else { &["FileAlreadyExists"] };
                    self.expect_err(info, &r, allowed, "C07", "mkdir-refusal", &what);
                }
                None => match &r {
                    Ok(()) => {
                        let id = self.nodes.len();
                        self.nodes.push(MNode {
                            slot: od.slot,
                            parent: Some(od.node),
                            name: n11,
                            is_dir: true,
                            attr: 0x10,
                            data: vec![],
                            children: vec![],
                            deleted_names: vec![],
                            alive: true,
                            cfields: Some({
                                let mut c = [0u8; 8];
                                c[2..4].copy_from_slice(&now.1.to_le_bytes());
                                c[4..6].copy_from_slice(&now.0.to_le_bytes());
                                c
                            }),
                            mtime: Some(now),
                            raw0: None,
                            touched: true,
                            tainted: false,
                            flushed: None,
                            created_in_history: true,
                        });
                        self.nodes[od.node].children.push(id);
                        self.nodes[od.node].touched = true;
                        info.mkdir = true;
                        info.file_node = Some(id);
                    }
                    Err(e) => {
                        let k = ek(e);
                        if k == "NotEnoughSpace" || k == "DiskFull" {
                            info.space_error = true;
                            self.stats.space_errors += 1;
                        } else if !(info.device_error && self.opts.faults) {
                            self.div("C07", "mkdir-failed", format!("{}: expected Ok, got {:?}", what, e));
                        }
                    }
                },
            },
        }
    }

    fn exec_find(&mut self, info: &mut StepInfo, d: u16, name: &NameSel, surf: Surf) {
        let Some(i) = Self::pick(&self.dirs, d) else {
            info.skipped = true;
            return;
        };
        let od = self.dirs[i].clone();
        info.slot = Some(od.slot);
        info.dir_node = Some(od.node);
        let nm = self.resolve_name(od.node, name);
        info.name = Some(nm.clone());
        let r = self.call(info, |a| a.find(od.h, &nm, surf));
        let Some(r) = r else { return self.panic_div(info) };
        self.note_result(info, &r);
        if self.opts.faults && (self.is_uncertain(od.node, &nm) || info.device_error) {
            return;
        }
        let what = format!("find_directory_entry({:?})", nm);
        match names::ref_parse(&nm) {
            RefName::DontCare => {}
            RefName::Invalid => self.expect_err(info, &r, &["FilenameError"], "C07", "find-invalid-name", &what),
            RefName::Valid(n11) => {
                let is_sub = self.nodes[od.node].parent.is_some();
                if n11[0] == b'.' {
                    if is_sub {
                        self.expect_ok(info, &r, "C06", "find-dot", &what);
                    } else {
                        self.expect_err(info, &r, &["NotFound"], "C06", "find-dot-in-root", &what);
                    }
                    return;
                }
                match self.child_by_name(od.node, &n11) {
                    // the listing of a labelled root contains the label's name: lookup finds the
                    // label entry when no file or directory carries that name
                    None if !is_sub && self.labelled[od.slot] && &n11 == mkfs::LABEL_NAME => {
                        if self.expect_ok(info, &r, "C06", "find-label", &what) {
                            let e = r.unwrap();
                            if !e.attributes.is_volume() || e.attributes.is_directory() {
                                self.div("C06", "find-label", format!("{}: the only entry of that name is the volume label, got {:?}", what, e));
                            }
                        }
                    }
                    None => self.expect_err(info, &r, &["NotFound"], "C06", "find-missing", &what),
                    Some(c) => {
                        if self.expect_ok(info, &r, "C06", "find-existing", &what) {
                            let e = r.unwrap();
                            self.compare_entry(c, &e, "find");
                        }
                    }
                }
            }
        }
    }

    pub fn compare_entry(&mut self, c: NodeId, e: &DirEntry, what: &str) {
        let node = self.nodes[c].clone();
        if node.tainted {
            return;
        }
        if e.attributes.is_directory() != node.is_dir {
            self.div("C06", "entry-type", format!("{} {}: directory bit {}", what, self.path_of(c), e.attributes.is_directory()));
        }
        if !node.is_dir && !self.is_open_node(c) && e.size as usize != node.data.len() {
            self.div("C06", "entry-size", format!("{} {}: size {} model {}", what, self.path_of(c), e.size, node.data.len()));
        }
    }

    fn exec_list(&mut self, info: &mut StepInfo, d: u16, surf: Surf, lfn_cap: Option<usize>) {
        let Some(i) = Self::pick(&self.dirs, d) else {
            info.skipped = true;
            return;
        };
        let od = self.dirs[i].clone();
        info.slot = Some(od.slot);
        info.dir_node = Some(od.node);
        let mut got: Vec<DirEntry> = Vec::new();
        let mut bad_utf8 = false;
        let r = match lfn_cap {
            None => self.call(info, |a| a.iterate(od.h, surf, &mut |e| got.push(e.clone()))),
            Some(cap) => {
                let mut buf = vec![0u8; cap];
                self.call(info, |a| {
                    a.iterate_lfn(od.h, surf, &mut buf, &mut |e, n| {
                        if let Some(s) = n {
                            if std::str::from_utf8(s.as_bytes()).is_err() {
                                bad_utf8 = true;
                            }
                        }
                        got.push(e.clone())
                    })
                })
            }
        };
        let Some(r) = r else { return self.panic_div(info) };
        self.note_result(info, &r);
        if bad_utf8 {
            self.div("C17", "invalid-utf8", "iterate_dir_lfn handed out an invalid UTF-8 string".into());
        }
        if !self.expect_ok(info, &r, "C06", "list-failed", "iterate_dir") {
            return;
        }
        // names listed (excluding volume labels and dot entries) must equal the model's live children
        let mut listed: Vec<[u8; 11]> = Vec::new();
        for e in &got {
            let dbg = format!("{}", e.name);
            let is_label = e.attributes.is_volume() && !e.attributes.is_directory();
            if is_label {
                continue;
            }
            let n = match names::ref_parse(&dbg) {
                RefName::Valid(n) => n,
                _ => {
                    self.div("C06", "list-unparseable", format!("listing of {} contains {:?}", self.path_of(od.node), dbg));
                    continue;
                }
            };
            if n[0] == b'.' {
                continue;
            }
            listed.push(n);
        }
        let mut want: Vec<[u8; 11]> = self.live_children(od.node).iter().map(|c| self.nodes[*c].name).collect();
        let mut l2 = listed.clone();
        if self.opts.faults {
            let unc: Vec<[u8; 11]> = self.uncertain.iter().filter(|(d, _)| *d == od.node).map(|(_, n)| *n).collect();
            l2.retain(|n| !unc.contains(n));
            want.retain(|n| !unc.contains(n));
        }
        l2.sort();
        want.sort();
        if l2 != want {
            let missing: Vec<String> = want.iter().filter(|n| !l2.contains(n)).map(names::display_name).collect();
            let extra: Vec<String> = l2.iter().filter(|n| !want.contains(n)).map(names::display_name).collect();
            self.div("C06", "list-mismatch", format!("listing of {}: missing {:?}, unexpected {:?}", self.path_of(od.node), missing, extra));
        }
    }

    fn check_all(&mut self, info: &mut StepInfo) {
        info.ok = true;
        for i in 0..self.files.len() {
            let of = self.files[i].clone();
            if self.nodes[of.node].tainted {
                continue;
            }
            let data = self.nodes[of.node].data.clone();
            let r = self.call(info, |a| -> Result<Vec<u8>, E> {
                a.seek_start(of.h, 0, Surf::Raw)?;
                let mut out = Vec::with_capacity(data.len());
                let sizes = [333usize, 1000, 4097, 1, 511, 513];
                let mut k = 0;
                let mut buf = vec![0u8; 4097];
                loop {
                    let n = a.read(of.h, &mut buf[..sizes[k % sizes.len()]], Surf::Raw)?;
                    if n == 0 {
                        break;
                    }
                    out.extend_from_slice(&buf[..n]);
                    k += 1;
                    if out.len() > data.len() + 8192 {
                        break;
                    }
                }
                a.seek_start(of.h, of.off, Surf::Raw)?;
                Ok(out)
            });
            let Some(r) = r else { return self.panic_div(info) };
            match r {
                Ok(out) => {
                    if out != data {
                        let p = out.iter().zip(data.iter()).position(|(a, b)| a != b).unwrap_or(out.len().min(data.len()));
                        self.div("C01", "reread-mismatch", format!("{}: full re-read differs from the model at byte {} (read {} bytes, model {})", self.path_of(of.node), p, out.len(), data.len()));
                    }
                }
                Err(e) => {
                    info.ok = false;
                    info.err = Some(format!("{:?}", e));
                    if !(self.opts.faults && ek(&e) == "DeviceError") {
                        self.div("C01", "reread-failed", format!("{}: re-read failed {:?}", self.path_of(of.node), e));
                    } else {
                        // the offset may have moved; resync
                        let _ = self.api().seek_start(of.h, of.off, Surf::Raw);
                    }
                }
            }
        }
    }

    /// Close everything through the API (files, then directories, then volumes).
    pub fn close_all(&mut self, info: &mut StepInfo) {
        self.close_files_and_dirs(info);
        if info.panicked.is_some() {
            return;
        }
        while let Some(ov) = self.vols.pop() {
            let r = self.call(info, |a| a.close_volume(ov.h, Surf::Raw));
            if let Some(Err(e)) = r {
                if !self.opts.faults {
                    self.div("C08", "close-volume", format!("close_volume failed: {:?}", e));
                }
            }
            self.closed_vols.push(ov.h);
        }
    }

    /// Close every file and directory, leave the volumes open.
    pub fn close_files_and_dirs(&mut self, info: &mut StepInfo) {
        while let Some(of) = self.files.pop() {
            let r = self.call(info, |a| a.close_file(of.h, Surf::Raw, false));
            match r {
                Some(Ok(())) => {
                    let n = of.node;
                    self.nodes[n].flushed = Some(self.nodes[n].data.clone());
                }
                Some(Err(e)) => {
                    self.nodes[of.node].tainted = true;
                    if !self.opts.faults {
                        self.div("C02", "close-failed", format!("close_file failed: {:?}", e));
                    }
                }
                None => {
                    self.panic_div(info);
                    return;
                }
            }
            self.closed_files.push(of.h);
        }
        while let Some(od) = self.dirs.pop() {
            let _ = self.call(info, |a| a.close_dir(od.h, Surf::Raw));
            self.closed_dirs.push(od.h);
        }
    }

    fn remount(&mut self, info: &mut StepInfo) {
        self.stats.remounts += 1;
        self.close_all(info);
        info.ok = true;
        self.closed_vols.clear();
        self.closed_dirs.clear();
        self.closed_files.clear();
        self.id_offset = self.id_offset.wrapping_add(977);
        self.api = Some(api::make_mgr(self.cfg, self.disk.clone(), self.clock.clone(), self.id_offset));
    }

    /// Alive file nodes of a slot with their paths.
    pub fn alive_files(&self) -> Vec<NodeId> {
        let mut v = Vec::new();
        for (id, n) in self.nodes.iter().enumerate() {
            if !n.is_dir && self.is_alive_path(id) {
                v.push(id);
            }
        }
        v
    }

    pub fn is_alive_path(&self, mut n: NodeId) -> bool {
        loop {
            if !self.nodes[n].alive {
                return false;
            }
            match self.nodes[n].parent {
                Some(p) => n = p,
                None => return true,
            }
        }
    }
}

/// Open every live model file through a *fresh* manager on a copy of the
/// medium and compare contents. Returns divergences (prop filled by caller).
pub fn verify_via_fresh_mount(it: &Interp, prop: &'static str) -> Vec<Divergence> {
    let mut out = Vec::new();
    let img = it.disk.snapshot();
    let disk = SimDisk::new(img);
    disk.0.borrow_mut().log_enabled = false;
    let api = api::make_mgr(11, disk, SimClock::new(1), 100);
    let step = it.step_no;
    let mut d = |code: &'static str, detail: String| {
        out.push(Divergence { prop, code, detail, step })
    };
    let r = catch_unwind(AssertUnwindSafe(|| {
        let mut errs: Vec<(&'static str, String)> = Vec::new();
        for slot in 0..4 {
            let Some(root) = it.roots[slot] else { continue };
            let v = match api.open_volume(slot, Surf::Raw) {
                Ok(v) => v,
                Err(e) => {
                    errs.push(("remount-open-volume", format!("slot {}: {:?}", slot, e)));
                    continue;
                }
            };
            let rd = match api.open_root_dir(v, Surf::Raw) {
                Ok(d) => d,
                Err(e) => {
                    errs.push(("remount-open-root", format!("{:?}", e)));
                    continue;
                }
            };
            walk_model(it, &*api, root, rd, &mut errs, 0);
            let _ = api.close_dir(rd, Surf::Raw);
            let _ = api.close_volume(v, Surf::Raw);
        }
        errs
    }));
    match r {
        Ok(errs) => {
            for (c, s) in errs {
                d(c, s);
            }
        }
        Err(p) => {
            let (m, _) = panic_msg(&p);
            d("remount-panic", m);
        }
    }
    out
}

fn walk_model(it: &Interp, api: &dyn Api, dir: NodeId, dh: RawDirectory, errs: &mut Vec<(&'static str, String)>, depth: u32) {
    if depth > 8 {
        return;
    }
    for c in it.nodes[dir].children.iter().copied() {
        let n = &it.nodes[c];
        if !n.alive || n.tainted {
            continue;
        }
        let nm = names::display_name(&n.name);
        if n.is_dir {
            match api.open_dir(dh, &nm, Surf::Raw) {
                Ok(sub) => {
                    walk_model(it, api, c, sub, errs, depth + 1);
                    let _ = api.close_dir(sub, Surf::Raw);
                }
                Err(e) => errs.push(("remount-open-dir", format!("{}: {:?}", it.path_of(c), e))),
            }
        } else {
            // the entry as a fresh manager reports it: size, attributes, write time
            match api.find(dh, &nm, Surf::Raw) {
                Ok(e) => {
                    if e.size as usize != n.data.len() {
                        errs.push(("remount-entry-size", format!("{}: find_directory_entry reports size {} (model {})", it.path_of(c), e.size, n.data.len())));
                    }
                    let a = e.attributes;
                    let got = (a.is_read_only() as u8) | (a.is_hidden() as u8) << 1 | (a.is_system() as u8) << 2 | (a.is_volume() as u8) << 3 | (a.is_directory() as u8) << 4 | (a.is_archive() as u8) << 5;
                    let mask = if n.mtime.is_none() && n.touched { 0x1F } else { 0x3F };
                    if (got ^ n.attr) & mask != 0 {
                        errs.push(("remount-entry-attributes", format!("{}: find_directory_entry reports attributes {:#04x} (model {:#04x})", it.path_of(c), got, n.attr)));
                    }
                    // only representable FAT date/time words survive the crate's Timestamp type
                    let representable = |date: u16, time: u16| (1..=12).contains(&((date >> 5) & 15)) && (date & 31) >= 1 && (time >> 11) < 24 && ((time >> 5) & 63) < 60 && (time & 31) < 30;
                    if let Some((date, time)) = n.mtime.filter(|(d, t)| representable(*d, *t)) {
                        let w = e.mtime.serialize_to_fat();
                        let (t, dt) = (u16::from_le_bytes([w[0], w[1]]), u16::from_le_bytes([w[2], w[3]]));
                        if (dt, t) != (date, time) {
                            errs.push(("remount-entry-mtime", format!("{}: find_directory_entry reports write date/time {:#06x}/{:#06x} (model {:#06x}/{:#06x})", it.path_of(c), dt, t, date, time)));
                        }
                    }
                }
                Err(e) => errs.push(("remount-find", format!("{}: {:?}", it.path_of(c), e))),
            }
            match api.open_file(dh, &nm, Mode::ReadOnly, Surf::Raw) {
                Ok(f) => {
                    let mut out = Vec::new();
                    let mut buf = vec![0u8; 3001];
                    let mut failed = None;
                    loop {
                        match api.read(f, &mut buf, Surf::Raw) {
                            Ok(0) => break,
                            Ok(k) => out.extend_from_slice(&buf[..k]),
                            Err(e) => {
                                failed = Some(format!("{:?}", e));
                                break;
                            }
                        }
                        if out.len() > n.data.len() + 10000 {
                            break;
                        }
                    }
                    let _ = api.close_file(f, Surf::Raw, false);
                    if let Some(e) = failed {
                        errs.push(("remount-read", format!("{}: {}", it.path_of(c), e)));
                    } else if out != n.data {
                        let p = out.iter().zip(n.data.iter()).position(|(a, b)| a != b).unwrap_or(out.len().min(n.data.len()));
                        errs.push(("remount-content", format!("{}: fresh mount reads {} bytes (model {}), first difference at {}", it.path_of(c), out.len(), n.data.len(), p)));
                    }
                }
                Err(e) => errs.push(("remount-open-file", format!("{}: {:?}", it.path_of(c), e))),
            }
        }
    }
}
