//! Object-safe facade over `VolumeManager` so that the interpreter is written
//! once and the limit configurations are only monomorphised in this thin layer.

use crate::simdisk::{DevErr, SimClock, SimDisk};
use embedded_io::{Read as IoRead, Seek as IoSeek, SeekFrom, Write as IoWrite};
use embedded_sdmmc::{DirEntry, LfnBuffer, Mode, RawDirectory, RawFile, RawVolume, VolumeIdx, VolumeManager};

pub type E = embedded_sdmmc::Error<DevErr>;

#[derive(Clone, Copy, Debug, PartialEq, Eq)]
pub enum Surf {
    Raw,
    Raii,
    Io,
}

impl Surf {
    pub fn from_u8(x: u8) -> Surf {
        match x % 3 {
            0 => Surf::Raw,
            1 => Surf::Raii,
            _ => Surf::Io,
        }
    }
}

/// Pending state of an open file (hook H2).
#[derive(Clone, Debug, PartialEq)]
pub struct FileState {
    pub first: u32,
    pub size: u32,
    pub entry_block: u32,
    pub entry_off: u32,
    pub offset: u32,
    pub cursor: (u32, u32),
    pub dirty: bool,
    pub attr_dir: bool,
}

pub fn mode_from_u8(m: u8) -> Mode {
    match m % 6 {
        0 => Mode::ReadOnly,
        1 => Mode::ReadWriteAppend,
        2 => Mode::ReadWriteTruncate,
        3 => Mode::ReadWriteCreate,
        4 => Mode::ReadWriteCreateOrTruncate,
        _ => Mode::ReadWriteCreateOrAppend,
    }
}

pub trait Api {
    fn limits(&self) -> (usize, usize, usize);
    fn open_volume(&self, idx: usize, s: Surf) -> Result<RawVolume, E>;
    fn close_volume(&self, v: RawVolume, s: Surf) -> Result<(), E>;
    fn open_root_dir(&self, v: RawVolume, s: Surf) -> Result<RawDirectory, E>;
    fn open_dir(&self, d: RawDirectory, name: &str, s: Surf) -> Result<RawDirectory, E>;
    /// RAII `Directory::change_dir`: returns the handle the wrapper holds afterwards
    fn change_dir(&self, d: RawDirectory, name: &str) -> (RawDirectory, Result<(), E>);
    fn close_dir(&self, d: RawDirectory, s: Surf) -> Result<(), E>;
    fn find(&self, d: RawDirectory, name: &str, s: Surf) -> Result<DirEntry, E>;
    fn iterate(&self, d: RawDirectory, s: Surf, f: &mut dyn FnMut(&DirEntry)) -> Result<(), E>;
    fn iterate_lfn(
        &self,
        d: RawDirectory,
        s: Surf,
        buf: &mut [u8],
        f: &mut dyn FnMut(&DirEntry, Option<&str>),
    ) -> Result<(), E>;
    fn open_file(&self, d: RawDirectory, name: &str, mode: Mode, s: Surf) -> Result<RawFile, E>;
    fn delete(&self, d: RawDirectory, name: &str, s: Surf) -> Result<(), E>;
    fn mkdir(&self, d: RawDirectory, name: &str, s: Surf) -> Result<(), E>;
    fn read(&self, f: RawFile, buf: &mut [u8], s: Surf) -> Result<usize, E>;
    /// returns number of bytes the surface claims to have written
    fn write(&self, f: RawFile, buf: &[u8], s: Surf) -> Result<usize, E>;
    fn flush(&self, f: RawFile, s: Surf) -> Result<(), E>;
    /// close; with `drop_only` the RAII wrapper is dropped instead of `close()`d
    fn close_file(&self, f: RawFile, s: Surf, drop_only: bool) -> Result<(), E>;
    fn seek_start(&self, f: RawFile, off: u32, s: Surf) -> Result<(), E>;
    fn seek_cur(&self, f: RawFile, off: i32, s: Surf) -> Result<(), E>;
    fn seek_end(&self, f: RawFile, off: u32, s: Surf) -> Result<(), E>;
    /// embedded-io seek; 0=Start 1=End 2=Current
    fn io_seek(&self, f: RawFile, whence: u8, off: i64) -> Result<u64, E>;
    fn length(&self, f: RawFile, s: Surf) -> Result<u32, E>;
    fn offset(&self, f: RawFile, s: Surf) -> Result<u32, E>;
    fn eof(&self, f: RawFile, s: Surf) -> Result<bool, E>;
    fn has_open_handles(&self) -> bool;
    fn set_next_handle_id(&self, next: u32);
    fn label(&self, v: RawVolume) -> Result<Option<Vec<u8>>, E>;
    fn file_state(&self, f: RawFile) -> Option<FileState>;
}

fn to_state(x: (DirEntry, u32, (u32, embedded_sdmmc::ClusterId), bool)) -> FileState {
    let (e, off, cur, dirty) = x;
    FileState {
        first: e.cluster.verif_raw(),
        size: e.size,
        entry_block: e.entry_block.0,
        entry_off: e.entry_offset,
        offset: off,
        cursor: (cur.0, cur.1.verif_raw()),
        dirty,
        attr_dir: e.attributes.is_directory(),
    }
}

impl<const D: usize, const F: usize, const V: usize> Api for VolumeManager<SimDisk, SimClock, D, F, V> {
    fn limits(&self) -> (usize, usize, usize) {
        (D, F, V)
    }
    fn open_volume(&self, idx: usize, s: Surf) -> Result<RawVolume, E> {
        match s {
            Surf::Raw => self.open_raw_volume(VolumeIdx(idx)),
            _ => VolumeManager::open_volume(self, VolumeIdx(idx)).map(|v| v.to_raw_volume()),
        }
    }
    fn close_volume(&self, v: RawVolume, s: Surf) -> Result<(), E> {
        match s {
            Surf::Raw => VolumeManager::close_volume(self, v),
            Surf::Raii => v.to_volume(self).close(),
            Surf::Io => {
                // drop-to-close: error is swallowed by Drop; report whether the handle is gone
                drop(v.to_volume(self));
                Ok(())
            }
        }
    }
    fn open_root_dir(&self, v: RawVolume, s: Surf) -> Result<RawDirectory, E> {
        match s {
            Surf::Raw => VolumeManager::open_root_dir(self, v),
            _ => {
                let vol = v.to_volume(self);
                let r = vol.open_root_dir().map(|d| d.to_raw_directory());
                let _ = vol.to_raw_volume();
                r
            }
        }
    }
    fn open_dir(&self, d: RawDirectory, name: &str, s: Surf) -> Result<RawDirectory, E> {
        match s {
            Surf::Raw => VolumeManager::open_dir(self, d, name),
            _ => {
                let dir = d.to_directory(self);
                let r = dir.open_dir(name).map(|x| x.to_raw_directory());
                let _ = dir.to_raw_directory();
                r
            }
        }
    }
    fn change_dir(&self, d: RawDirectory, name: &str) -> (RawDirectory, Result<(), E>) {
        let mut dir = d.to_directory(self);
        let r = dir.change_dir(name);
        (dir.to_raw_directory(), r)
    }
    fn close_dir(&self, d: RawDirectory, s: Surf) -> Result<(), E> {
        match s {
            Surf::Raw => VolumeManager::close_dir(self, d),
            Surf::Raii => d.to_directory(self).close(),
            Surf::Io => {
                drop(d.to_directory(self));
                Ok(())
            }
        }
    }
    fn find(&self, d: RawDirectory, name: &str, s: Surf) -> Result<DirEntry, E> {
        match s {
            Surf::Raw => self.find_directory_entry(d, name),
            _ => {
                let dir = d.to_directory(self);
                let r = dir.find_directory_entry(name);
                let _ = dir.to_raw_directory();
                r
            }
        }
    }
    fn iterate(&self, d: RawDirectory, s: Surf, f: &mut dyn FnMut(&DirEntry)) -> Result<(), E> {
        match s {
            Surf::Raw => self.iterate_dir(d, |e| f(e)),
            _ => {
                let dir = d.to_directory(self);
                let r = dir.iterate_dir(|e| f(e));
                let _ = dir.to_raw_directory();
                r
            }
        }
    }
    fn iterate_lfn(
        &self,
        d: RawDirectory,
        s: Surf,
        buf: &mut [u8],
        f: &mut dyn FnMut(&DirEntry, Option<&str>),
    ) -> Result<(), E> {
        let mut lb = LfnBuffer::new(buf);
        match s {
            Surf::Raw => self.iterate_dir_lfn(d, &mut lb, |e, n| f(e, n)),
            _ => {
                let dir = d.to_directory(self);
                let r = dir.iterate_dir_lfn(&mut lb, |e, n| f(e, n));
                let _ = dir.to_raw_directory();
                r
            }
        }
    }
    fn open_file(&self, d: RawDirectory, name: &str, mode: Mode, s: Surf) -> Result<RawFile, E> {
        match s {
            Surf::Raw => self.open_file_in_dir(d, name, mode),
            _ => {
                let dir = d.to_directory(self);
                let r = dir.open_file_in_dir(name, mode).map(|f| f.to_raw_file());
                let _ = dir.to_raw_directory();
                r
            }
        }
    }
    fn delete(&self, d: RawDirectory, name: &str, s: Surf) -> Result<(), E> {
        match s {
            Surf::Raw => self.delete_file_in_dir(d, name),
            _ => {
                let dir = d.to_directory(self);
                let r = dir.delete_file_in_dir(name);
                let _ = dir.to_raw_directory();
                r
            }
        }
    }
    fn mkdir(&self, d: RawDirectory, name: &str, s: Surf) -> Result<(), E> {
        match s {
            Surf::Raw => self.make_dir_in_dir(d, name),
            _ => {
                let dir = d.to_directory(self);
                let r = dir.make_dir_in_dir(name);
                let _ = dir.to_raw_directory();
                r
            }
        }
    }
    fn read(&self, f: RawFile, buf: &mut [u8], s: Surf) -> Result<usize, E> {
        match s {
            Surf::Raw => VolumeManager::read(self, f, buf),
            Surf::Raii => {
                let file = f.to_file(self);
                let r = file.read(buf);
                let _ = file.to_raw_file();
                r
            }
            Surf::Io => {
                let mut file = f.to_file(self);
                let r = IoRead::read(&mut file, buf);
                let _ = file.to_raw_file();
                r
            }
        }
    }
    fn write(&self, f: RawFile, buf: &[u8], s: Surf) -> Result<usize, E> {
        match s {
            Surf::Raw => VolumeManager::write(self, f, buf).map(|_| buf.len()),
            Surf::Raii => {
                let file = f.to_file(self);
                let r = file.write(buf).map(|_| buf.len());
                let _ = file.to_raw_file();
                r
            }
            Surf::Io => {
                let mut file = f.to_file(self);
                let r = IoWrite::write(&mut file, buf);
                let _ = file.to_raw_file();
                r
            }
        }
    }
    fn flush(&self, f: RawFile, s: Surf) -> Result<(), E> {
        match s {
            Surf::Raw => self.flush_file(f),
            Surf::Raii => {
                let file = f.to_file(self);
                let r = file.flush();
                let _ = file.to_raw_file();
                r
            }
            Surf::Io => {
                let mut file = f.to_file(self);
                let r = IoWrite::flush(&mut file);
                let _ = file.to_raw_file();
                r
            }
        }
    }
    fn close_file(&self, f: RawFile, s: Surf, drop_only: bool) -> Result<(), E> {
        match s {
            Surf::Raw => VolumeManager::close_file(self, f),
            _ => {
                let file = f.to_file(self);
                if drop_only {
                    drop(file);
                    Ok(())
                } else {
                    file.close()
                }
            }
        }
    }
    fn seek_start(&self, f: RawFile, off: u32, s: Surf) -> Result<(), E> {
        match s {
            Surf::Raw => self.file_seek_from_start(f, off),
            _ => {
                let file = f.to_file(self);
                let r = file.seek_from_start(off);
                let _ = file.to_raw_file();
                r
            }
        }
    }
    fn seek_cur(&self, f: RawFile, off: i32, s: Surf) -> Result<(), E> {
        match s {
            Surf::Raw => self.file_seek_from_current(f, off),
            _ => {
                let file = f.to_file(self);
                let r = file.seek_from_current(off);
                let _ = file.to_raw_file();
                r
            }
        }
    }
    fn seek_end(&self, f: RawFile, off: u32, s: Surf) -> Result<(), E> {
        match s {
            Surf::Raw => self.file_seek_from_end(f, off),
            _ => {
                let file = f.to_file(self);
                let r = file.seek_from_end(off);
                let _ = file.to_raw_file();
                r
            }
        }
    }
    fn io_seek(&self, f: RawFile, whence: u8, off: i64) -> Result<u64, E> {
        let mut file = f.to_file(self);
        let pos = match whence % 3 {
            0 => SeekFrom::Start(off as u64),
            1 => SeekFrom::End(off),
            _ => SeekFrom::Current(off),
        };
        let r = IoSeek::seek(&mut file, pos);
        let _ = file.to_raw_file();
        r
    }
    fn length(&self, f: RawFile, s: Surf) -> Result<u32, E> {
        match s {
            Surf::Raw => self.file_length(f),
            _ => {
                let file = f.to_file(self);
                let r = file.length();
                let _ = file.to_raw_file();
                Ok(r)
            }
        }
    }
    fn offset(&self, f: RawFile, s: Surf) -> Result<u32, E> {
        match s {
            Surf::Raw => self.file_offset(f),
            _ => {
                let file = f.to_file(self);
                let r = file.offset();
                let _ = file.to_raw_file();
                Ok(r)
            }
        }
    }
    fn eof(&self, f: RawFile, s: Surf) -> Result<bool, E> {
        match s {
            Surf::Raw => self.file_eof(f),
            _ => {
                let file = f.to_file(self);
                let r = file.is_eof();
                let _ = file.to_raw_file();
                Ok(r)
            }
        }
    }
    fn has_open_handles(&self) -> bool {
        VolumeManager::has_open_handles(self)
    }
    fn set_next_handle_id(&self, next: u32) {
        self.verif_set_next_handle_id(next)
    }
    fn label(&self, v: RawVolume) -> Result<Option<Vec<u8>>, E> {
        self.get_root_volume_label(v).map(|o| o.map(|n| n.name().to_vec()))
    }
    fn file_state(&self, f: RawFile) -> Option<FileState> {
        self.verif_open_file_state(f).map(to_state)
    }
}

/// The 12 limit configurations of DESIGN.md 4.8 (dirs, files, volumes).
pub const LIMIT_CONFIGS: [(usize, usize, usize); 12] = [
    (4, 4, 1),
    (1, 1, 1),
    (2, 3, 1),
    (3, 2, 2),
    (4, 4, 4),
    (5, 1, 3),
    (6, 8, 2),
    (7, 5, 1),
    (8, 6, 4),
    (1, 7, 2),
    (2, 8, 3),
    (8, 8, 4),
];

pub fn make_mgr(cfg: usize, disk: SimDisk, clock: SimClock, id_offset: u32) -> Box<dyn Api> {
    macro_rules! mk {
        ($d:expr, $f:expr, $v:expr) => {
            Box::new(VolumeManager::<SimDisk, SimClock, $d, $f, $v>::new_with_limits(disk, clock, id_offset))
        };
    }
    match cfg % 12 {
        0 => mk!(4, 4, 1),
        1 => mk!(1, 1, 1),
        2 => mk!(2, 3, 1),
        3 => mk!(3, 2, 2),
        4 => mk!(4, 4, 4),
        5 => mk!(5, 1, 3),
        6 => mk!(6, 8, 2),
        7 => mk!(7, 5, 1),
        8 => mk!(8, 6, 4),
        9 => mk!(1, 7, 2),
        10 => mk!(2, 8, 3),
        _ => mk!(8, 8, 4),
    }
}
