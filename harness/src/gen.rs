//! proptest strategies for geometries, trees and names.

use crate::mkfs::*;
use proptest::prelude::*;

/// Fixed pool of valid 8.3 names (string form). Small on purpose: histories
/// must hit the same names again (clashes, delete-then-create).
pub const NAME_POOL: &[&str] = &[
    "A", "B.TXT", "FOO.BAR", "LONGNAME.EXT", "X1", "DATA.BIN", "LOG", "N0.1", "Z~1.C", "R.D", "SUB", "DIR2", "DEEP",
    "README.TXT", "A.B", "#$%&'().-@^", "_`{}~!.X", "M\u{e9}.\u{fc}", "12345678.123", "Q", "\u{e5}NGSTR\u{f6}M.TXT",
];

pub fn name11(s: &str) -> [u8; 11] {
    // reference conversion for *valid* names only
    let mut n = [b' '; 11];
    if s == "." {
        n[0] = b'.';
        return n;
    }
    if s == ".." {
        n[0] = b'.';
        n[1] = b'.';
        return n;
    }
    let (base, ext) = match s.find('.') {
        Some(p) => (&s[..p], &s[p + 1..]),
        None => (s, ""),
    };
    for (i, c) in base.chars().enumerate().take(8) {
        n[i] = crate::names::latin1_upper(c as u32 as u8);
    }
    for (i, c) in ext.chars().enumerate().take(3) {
        n[8 + i] = crate::names::latin1_upper(c as u32 as u8);
    }
    n
}

pub fn valid_date() -> impl Strategy<Value = u16> {
    (0u16..128, 1u16..13, 1u16..29).prop_map(|(y, m, d)| (y << 9) | (m << 5) | d)
}
pub fn valid_time() -> impl Strategy<Value = u16> {
    (0u16..24, 0u16..60, 0u16..30).prop_map(|(h, m, s)| (h << 11) | (m << 5) | s)
}

pub fn times() -> impl Strategy<Value = Times> {
    prop_oneof![
        6 => (valid_date(), valid_time(), 0u8..200, valid_date(), valid_time(), valid_date()).prop_map(
            |(cdate, ctime, ctenths, mdate, mtime, adate)| Times { cdate, ctime, ctenths, mdate, mtime, adate }
        ),
        1 => (valid_date(), valid_time()).prop_map(|(d, t)| Times { cdate: 0, ctime: 0, ctenths: 0, mdate: d, mtime: t, adate: 0 }),
        1 => Just(Times { cdate: 0x2A21, ctime: 0, ctenths: 0, mdate: 0x2A21, mtime: 0, adate: 0x2A21 }),
    ]
}

pub fn spc_strategy() -> impl Strategy<Value = u8> {
    prop_oneof![
        6 => Just(1u8), 5 => Just(2u8), 4 => Just(4u8), 3 => Just(8u8),
        1 => Just(16u8), 1 => Just(32u8), 1 => Just(64u8), 1 => Just(128u8),
    ]
}

pub fn clusters_strategy(fat32: bool) -> BoxedStrategy<u32> {
    if fat32 {
        prop_oneof![
            3 => Just(65525u32), 1 => Just(65526u32), 1 => Just(65527u32),
            2 => (0u32..600).prop_map(|x| 65525 + x),
            3 => (65_700u32..66_500),
            // (count+2) % 128 in {0,1,64}
            1 => (512u32..530).prop_map(|k| k * 128 - 2),
            1 => (512u32..530).prop_map(|k| k * 128 - 1),
            1 => (512u32..530).prop_map(|k| k * 128 + 62),
            1 => (65525u32..300_000),
        ]
        .boxed()
    } else {
        prop_oneof![
            3 => Just(4085u32), 1 => Just(4086u32), 1 => Just(4087u32), 1 => Just(65524u32), 1 => Just(65523u32),
            3 => (4085u32..5000),
            1 => (16u32..255).prop_map(|k| k * 256 - 2),
            1 => (16u32..255).prop_map(|k| k * 256 - 1),
            1 => (16u32..255).prop_map(|k| k * 256 + 126),
            1 => (4085u32..65525),
        ]
        .boxed()
    }
}

pub fn fsinfo_strategy(clusters: u32) -> impl Strategy<Value = FsInfoKind> {
    let cnt = prop_oneof![Just(0u32), Just(1u32), Just(clusters), Just(clusters + 2), any::<u32>(), (0u32..clusters)];
    let nxt = prop_oneof![
        Just(0u32), Just(1u32), Just(2u32), Just(clusters + 1), Just(clusters + 2), Just(clusters + 100),
        Just(0xFFFF_FFFFu32), Just(0x3FFF_FFFFu32), Just(0x4000_0001u32), any::<u32>(), (2u32..clusters + 2)
    ];
    prop_oneof![
        4 => Just(FsInfoKind::Correct),
        2 => Just(FsInfoKind::Unknown),
        3 => (cnt, nxt).prop_map(|(count, next)| FsInfoKind::Stale { count, next }),
    ]
}

#[derive(Clone, Copy, Debug, PartialEq)]
pub enum FatPick {
    Any,
    Fat16,
    Fat32,
}

pub fn geom_strategy(pick: FatPick) -> impl Strategy<Value = VolGeom> {
    let ft = match pick {
        FatPick::Any => any::<bool>().boxed(),
        FatPick::Fat16 => Just(false).boxed(),
        FatPick::Fat32 => Just(true).boxed(),
    };
    ft.prop_flat_map(|fat32| (Just(fat32), clusters_strategy(fat32)))
        .prop_flat_map(|(fat32, clusters)| {
            let reserved = if fat32 {
                prop_oneof![4 => Just(32u16), 2 => (3u16..64), 1 => Just(3u16), 1 => prop::sample::select(vec![255u16, 256, 257, 288, 4000, 65535])].boxed()
            } else {
                prop_oneof![4 => Just(1u16), 2 => (1u16..9), 1 => prop::sample::select(vec![255u16, 256, 257, 288, 1000, 65535])].boxed()
            };
            (
                (Just(fat32), Just(clusters), spc_strategy(), reserved, prop_oneof![Just(1u8), Just(2u8), Just(2u8)]),
                (
                    prop_oneof![4 => Just(0u16), 1 => (1u16..4)],
                    any::<u8>(),
                    any::<bool>(),
                    prop_oneof![4 => Just(1u16), 1 => (1u16..64)],
                    prop::bool::weighted(0.25),
                    fsinfo_strategy(clusters),
                    prop::sample::select(&VALID_PART_TYPES[..]),
                ),
                (
                    prop_oneof![2 => Just(0u16), 2 => (0u16..64), 1 => (64u16..3000)],
                    prop::bool::weighted(0.3),
                    any::<bool>(),
                    prop_oneof![3 => Just(0u16), 2 => (1u16..8).prop_map(|x| x * 16), 2 => (17u16..260), 1 => Just(512u16)],
                ),
            )
        })
        .prop_map(
            |(
                (fat32, clusters, spc, reserved, num_fats),
                (fat_slack, tail_slack, total16, fsinfo_sector, root_late, fsinfo, part_type),
                (gap_before, hi_nibbles, label, root_entries),
            )| {
                let mut g = VolGeom {
                    fat32,
                    spc,
                    reserved,
                    num_fats,
                    root_entries,
                    clusters,
                    fat_slack,
                    tail_slack,
                    total16,
                    fsinfo_sector,
                    root_late,
                    fsinfo,
                    part_type,
                    gap_before,
                    hi_nibbles,
                    label,
                };
                normalise(&mut g);
                g
            },
        )
}

pub fn usable_strategy() -> impl Strategy<Value = Usable> {
    (
        prop::bool::weighted(0.2),
        (8u16..200),
        prop_oneof![1 => Just(0u16), 1 => (1u16..40)],
        prop_oneof![2 => Just(0u16), 1 => (1u16..24)],
        prop_oneof![4 => Just(None), 3 => (0u16..12).prop_map(Some), 2 => (12u16..100).prop_map(Some)],
        any::<u32>(),
        any::<bool>(),
    )
        .prop_map(|(all, low, mid, high, free_after, frag_seed, fragmented)| Usable {
            all,
            low,
            mid,
            high,
            free_after,
            frag_seed,
            fragmented,
        })
}

pub fn pool_name() -> impl Strategy<Value = [u8; 11]> {
    (0usize..NAME_POOL.len()).prop_map(|i| name11(NAME_POOL[i]))
}

pub fn file_size(cluster_bytes: u32) -> BoxedStrategy<u32> {
    let cb = cluster_bytes;
    let maxc: u32 = if cb >= 16384 { 2 } else { 5 };
    prop_oneof![
        2 => Just(0u32),
        2 => (1u32..512),
        1 => Just(512u32),
        1 => Just(cb),
        1 => Just(cb - 1),
        1 => Just(cb + 1),
        2 => (1u32..maxc * cb + 2),
        1 => (1u32..maxc + 1).prop_map(move |k| k * cb),
    ]
    .boxed()
}

pub fn file_attr() -> impl Strategy<Value = u8> {
    prop_oneof![
        6 => Just(0x20u8), 1 => Just(0x00u8), 2 => Just(0x21u8), 1 => Just(0x01u8), 1 => Just(0x22u8), 1 => Just(0x24u8), 1 => Just(0x27u8)
    ]
}

pub fn deleted_slot() -> impl Strategy<Value = Slot> {
    (pool_name(), any::<[u8; 20]>()).prop_map(|(n, rest)| {
        let mut r = [0u8; 32];
        r[0..11].copy_from_slice(&n);
        r[0] = 0xE5;
        r[11] = 0x20;
        r[12..32].copy_from_slice(&rest);
        Slot::Raw(vec![r])
    })
}

pub fn lfn_units() -> impl Strategy<Value = Vec<u16>> {
    prop::collection::vec(
        prop_oneof![
            8 => (0x20u16..0x7F), 1 => (0xA0u16..0x400), 1 => (0x4E00u16..0x4F00),
        ],
        1..40,
    )
}

/// Optional well-formed LFN run in front of an entry.
fn pre_for(name: [u8; 11]) -> impl Strategy<Value = Vec<Raw32>> {
    prop_oneof![
        3 => Just(vec![]),
        1 => lfn_units().prop_map(move |u| lfn_run(&u, lfn_checksum(&name))),
    ]
}

pub fn file_slot(cb: u32) -> impl Strategy<Value = Slot> {
    (pool_name(), file_attr(), file_size(cb), any::<u32>(), prop_oneof![5 => Just(0u8), 1 => (1u8..3)], times())
        .prop_flat_map(|(name, attr, size, seed, extra, times)| {
            pre_for(name).prop_map(move |pre| Slot::File {
                name,
                attr,
                size,
                seed,
                extra,
                times,
                pre,
            })
        })
}

pub fn slots_strategy(cb: u32, depth: u32, max: usize, full: bool) -> BoxedStrategy<Vec<Slot>> {
    let leaf = prop_oneof![5 => file_slot(cb).boxed(), 1 => deleted_slot().boxed()];
    let elem: BoxedStrategy<Slot> = if depth == 0 {
        leaf.boxed()
    } else {
        let sub = (
            pool_name(),
            prop_oneof![5 => Just(0x10u8), 1 => Just(0x30u8), 1 => Just(0x12u8)],
            slots_strategy(cb, depth - 1, 6, full),
            // `full`: sub-directories that span several clusters and have 0-2 free slots left, so
            // that a create or two makes them grow
            if full { prop_oneof![2 => Just(0u8), 1 => (1u8..3), 3 => (0x81u8..0x84)].boxed() } else { prop_oneof![5 => Just(0u8), 1 => (1u8..3)].boxed() },
            if full {
                prop_oneof![1 => Just(None), 2 => Just(Some(0u16)), 2 => Just(Some(1u16)), 2 => Just(Some(2u16))].boxed()
            } else {
                prop_oneof![4 => Just(None), 1 => Just(Some(0u16)), 1 => Just(Some(1u16)), 1 => Just(Some(2u16))].boxed()
            },
            times(),
        )
            .prop_flat_map(|(name, attr, children, extra, pad_free, times)| {
                pre_for(name).prop_map(move |pre| Slot::Dir {
                    name,
                    attr,
                    children: children.clone(),
                    extra,
                    pad_free,
                    times,
                    pre,
                })
            });
        prop_oneof![4 => leaf, 2 => sub].boxed()
    };
    prop::collection::vec(elem, 0..max).prop_map(dedupe).boxed()
}

/// Remove live entries whose name is already taken in the same directory.
pub fn dedupe(v: Vec<Slot>) -> Vec<Slot> {
    let mut seen: Vec<[u8; 11]> = Vec::new();
    let mut out = Vec::new();
    for s in v {
        let name = match &s {
            Slot::File { name, .. } | Slot::Dir { name, .. } => Some(*name),
            Slot::Raw(_) => None,
        };
        match name {
            Some(n) => {
                if !seen.contains(&n) {
                    seen.push(n);
                    out.push(s);
                }
            }
            None => out.push(s),
        }
    }
    out
}

#[derive(Clone, Copy, Debug)]
pub struct VolBias {
    pub pick: FatPick,
    /// force small free space / padded directories more often
    pub tight: bool,
    pub stale: bool,
    pub max_depth: u32,
    /// multi-cluster sub-directories with 0-2 free slots are common (directory growth)
    pub full_dirs: bool,
}

impl Default for VolBias {
    fn default() -> Self {
        VolBias {
            pick: FatPick::Any,
            tight: false,
            stale: false,
            max_depth: 2,
            full_dirs: false,
        }
    }
}

pub fn vol_strategy(bias: VolBias) -> impl Strategy<Value = VolSpec> {
    geom_strategy(bias.pick).prop_flat_map(move |geom| {
        let cb = geom.spc as u32 * 512;
        let usable = if bias.tight {
            usable_strategy()
                .prop_map(|mut u| {
                    // three quarters of the "tight" volumes really are tight
                    if u.frag_seed % 4 != 3 {
                        u.all = false;
                        if u.free_after.is_none() || u.free_after.unwrap() > 12 {
                            u.free_after = Some(((u.frag_seed >> 2) % 9) as u16);
                        }
                    }
                    u
                })
                .boxed()
        } else {
            usable_strategy().boxed()
        };
        let pad = if bias.tight {
            prop_oneof![1 => Just(None), 1 => Just(Some(0u16)), 1 => Just(Some(1u16)), 1 => Just(Some(2u16))].boxed()
        } else {
            prop_oneof![5 => Just(None), 1 => Just(Some(0u16)), 1 => Just(Some(1u16)), 1 => Just(Some(3u16))].boxed()
        };
        (
            Just(geom),
            usable,
            slots_strategy(cb, bias.max_depth, 10, bias.full_dirs),
            pad,
            if bias.full_dirs { prop_oneof![3 => Just(0u8), 1 => (1u8..3), 2 => (0x81u8..0x84)].boxed() } else { prop_oneof![5 => Just(0u8), 1 => (1u8..3)].boxed() },
            if bias.stale { Just(true).boxed() } else { prop::bool::weighted(0.5).boxed() },
        )
            .prop_map(|(geom, usable, root, root_pad_free, root_extra, stale)| VolSpec {
                geom,
                usable,
                root,
                root_pad_free,
                root_extra,
                stale,
            })
    })
}

/// Disk with 1..=2 volumes in arbitrary slots.
pub fn disk_strategy(bias: VolBias, multi: bool) -> impl Strategy<Value = DiskSpec> {
    let nv = if multi {
        prop_oneof![3 => Just(1usize), 2 => Just(2usize)].boxed()
    } else {
        Just(1usize).boxed()
    };
    (nv, 0usize..4, 0usize..3, 0u16..32)
        .prop_flat_map(move |(n, s0, s1off, guard)| {
            let vols = prop::collection::vec(vol_strategy(bias), n);
            (vols, Just(s0), Just(s1off), Just(guard))
        })
        .prop_map(|(vols, s0, s1off, guard)| {
            let mut slots: Vec<Option<VolSpec>> = vec![None, None, None, None];
            let mut it = vols.into_iter();
            let a = it.next().unwrap();
            match it.next() {
                None => {
                    slots[s0] = Some(a);
                }
                Some(b) => {
                    // two volumes: ascending slots so that LBAs ascend too
                    let s0 = s0.min(2);
                    let s1 = (s0 + 1 + s1off).min(3);
                    slots[s0] = Some(a);
                    slots[s1] = Some(b);
                }
            }
            DiskSpec { vols: slots, guard }
        })
}
