//! C08 special ops: every method with a stale (closed) handle, and every
//! result-returning method called re-entrantly from a directory-iteration
//! callback.

use crate::api::{Api, Surf, E};
use crate::interp::{ek, Interp, StepInfo};
use crate::ops::Op;
use embedded_sdmmc::{Mode, RawDirectory, RawFile, RawVolume};

fn outcome<T>(r: &Result<T, E>) -> Result<(), String> {
    match r {
        Ok(_) => Ok(()),
        Err(e) => Err(ek(e)),
    }
}

pub fn exec_special(it: &mut Interp, info: &mut StepInfo, op: &Op, _surf: Surf) {
    match op {
        Op::Stale { kind, which, method: _ } => stale(it, info, *kind, *which),
        Op::Reenter { d, lfn, method: _, at } => reenter(it, info, *d, *lfn, *at),
        _ => info.skipped = true,
    }
}

fn pick<T>(v: &[T], raw: u16) -> Option<usize> {
    if v.is_empty() {
        None
    } else {
        Some(((raw as usize) * v.len()) >> 16)
    }
}

fn stale(it: &mut Interp, info: &mut StepInfo, kind: u8, which: u16) {
    let (max_d, max_f, _max_v) = it.api().limits();
    let dirs_full = it.dirs.len() >= max_d;
    let files_full = it.files.len() >= max_f;
    // (method name, outcome, alternative error accepted, handle returned that must be closed again)
    let mut results: Vec<(&'static str, Result<(), String>, Option<&'static str>)> = Vec::new();
    let mut leaked_dirs: Vec<RawDirectory> = Vec::new();
    let mut leaked_files: Vec<RawFile> = Vec::new();
    match kind % 3 {
        0 => {
            // a closed file handle that is not open again (ids are unique, but be safe)
            let cands: Vec<RawFile> = it.closed_files.iter().copied().filter(|h| !it.files.iter().any(|f| f.h == *h)).collect();
            let Some(i) = pick(&cands, which) else {
                info.skipped = true;
                return;
            };
            let h = cands[i];
            info.kind = "Stale(file)";
            let r = it_call(it, info, |a| {
                let mut v: Vec<(&'static str, Result<(), String>, Option<&'static str>)> = Vec::new();
                let mut buf = [0u8; 16];
                for s in [Surf::Raw, Surf::Raii, Surf::Io] {
                    v.push(("read", outcome(&a.read(h, &mut buf, s)), None));
                    v.push(("write", outcome(&a.write(h, b"stale", s)), None));
                    // zero-length transfers are still calls on the handle (embedded-io allows
                    // `Ok(0)` *or an error* for an empty buffer; the property asks for the error)
                    v.push(("read", outcome(&a.read(h, &mut [], s)), None));
                    v.push(("write", outcome(&a.write(h, b"", s)), None));
                    v.push(("flush_file", outcome(&a.flush(h, s)), None));
                    v.push(("file_seek_from_start", outcome(&a.seek_start(h, 0, s)), None));
                    v.push(("file_seek_from_current", outcome(&a.seek_cur(h, 0, s)), None));
                    v.push(("file_seek_from_end", outcome(&a.seek_end(h, 0, s)), None));
                }
                v.push(("Seek::seek(Start)", outcome(&a.io_seek(h, 0, 0)), None));
                v.push(("Seek::seek(End)", outcome(&a.io_seek(h, 1, 0)), None));
                v.push(("Seek::seek(Current)", outcome(&a.io_seek(h, 2, 0)), None));
                // relative steps that do not fit 32 bits take their own path through the adapter
                v.push(("Seek::seek(Current, +2^32)", outcome(&a.io_seek(h, 2, 1i64 << 32)), None));
                v.push(("Seek::seek(Current, -2^32)", outcome(&a.io_seek(h, 2, -(1i64 << 32))), None));
                v.push(("Seek::seek(Current, i64::MIN)", outcome(&a.io_seek(h, 2, i64::MIN)), None));
                // arguments that are themselves out of range: the handle is judged first
                v.push(("Seek::seek(Start, 2^32)", outcome(&a.io_seek(h, 0, 1i64 << 32)), None));
                v.push(("Seek::seek(End, +1)", outcome(&a.io_seek(h, 1, 1)), None));
                v.push(("Seek::seek(End, i64::MIN)", outcome(&a.io_seek(h, 1, i64::MIN)), None));
                v.push(("file_eof", outcome(&a.eof(h, Surf::Raw)), None));
                v.push(("file_length", outcome(&a.length(h, Surf::Raw)), None));
                v.push(("file_offset", outcome(&a.offset(h, Surf::Raw)), None));
                v.push(("close_file", outcome(&a.close_file(h, Surf::Raw, false)), None));
                v.push(("File::close", outcome(&a.close_file(h, Surf::Raii, false)), None));
                v
            });
            let Some(v) = r else { return };
            results = v;
        }
        1 => {
            let cands: Vec<RawDirectory> = it.closed_dirs.iter().copied().filter(|h| !it.dirs.iter().any(|d| d.h == *h)).collect();
            let Some(i) = pick(&cands, which) else {
                info.skipped = true;
                return;
            };
            let h = cands[i];
            info.kind = "Stale(dir)";
            let r = it_call(it, info, |a| {
                let mut v: Vec<(&'static str, Result<(), String>, Option<&'static str>)> = Vec::new();
                let mut ld = Vec::new();
                let mut lf = Vec::new();
                for s in [Surf::Raw, Surf::Raii] {
                    let r = a.open_dir(h, "SUB", s);
                    if let Ok(x) = &r {
                        ld.push(*x);
                    }
                    v.push(("open_dir", outcome(&r), None));
                    let r = a.open_dir(h, ".", s);
                    if let Ok(x) = &r {
                        ld.push(*x);
                    }
                    v.push(("open_dir(.)", outcome(&r), None));
                    v.push(("find_directory_entry", outcome(&a.find(h, "A", s)), None));
                    v.push(("iterate_dir", outcome(&a.iterate(h, s, &mut |_| {})), None));
                    let mut b = [0u8; 64];
                    v.push(("iterate_dir_lfn", outcome(&a.iterate_lfn(h, s, &mut b, &mut |_, _| {})), None));
                    for m in [Mode::ReadOnly, Mode::ReadWriteCreateOrAppend, Mode::ReadWriteCreate, Mode::ReadWriteTruncate] {
                        let r = a.open_file(h, "STALE.TMP", m, s);
                        if let Ok(x) = &r {
                            lf.push(*x);
                        }
                        v.push(("open_file_in_dir", outcome(&r), None));
                    }
                    v.push(("delete_file_in_dir", outcome(&a.delete(h, "A", s)), None));
                    v.push(("make_dir_in_dir", outcome(&a.mkdir(h, "STALEDIR", s)), None));
                }
                v.push(("close_dir", outcome(&a.close_dir(h, Surf::Raw)), None));
                v.push(("Directory::close", outcome(&a.close_dir(h, Surf::Raii)), None));
                (v, ld, lf)
            });
            let Some((v, ld, lf)) = r else { return };
            results = v;
            leaked_dirs = ld;
            leaked_files = lf;
        }
        _ => {
            let cands: Vec<RawVolume> = it.closed_vols.iter().copied().filter(|h| !it.vols.iter().any(|v| v.h == *h)).collect();
            let Some(i) = pick(&cands, which) else {
                info.skipped = true;
                return;
            };
            let h = cands[i];
            info.kind = "Stale(volume)";
            let r = it_call(it, info, |a| {
                let mut v: Vec<(&'static str, Result<(), String>, Option<&'static str>)> = Vec::new();
                let mut ld = Vec::new();
                for s in [Surf::Raw, Surf::Raii] {
                    let r = a.open_root_dir(h, s);
                    if let Ok(x) = &r {
                        // give the slot back at once so that the following calls see a clean state
                        let _ = a.close_dir(*x, Surf::Raw);
                    }
                    v.push(("open_root_dir", outcome(&r), if dirs_full { Some("TooManyOpenDirs") } else { None }));
                }
                v.push(("get_root_volume_label", outcome(&a.label(h)), None));
                v.push(("close_volume", outcome(&a.close_volume(h, Surf::Raw)), None));
                v.push(("Volume::close", outcome(&a.close_volume(h, Surf::Raii)), None));
                (v, ld)
            });
            let Some((v, ld)) = r else { return };
            results = v;
            leaked_dirs = ld;
        }
    }
    info.ok = true;
    info.refused = true;
    for (m, r, alt) in &results {
        match r {
            Err(k) if k == "BadHandle" => {}
            Err(k) if Some(k.as_str()) == *alt => {}
            Err(k) => it_div(it, "stale-handle-wrong-error", format!("{} with a closed handle returned {} instead of BadHandle", m, k)),
            Ok(()) if *m == "open_root_dir" => it_div(it, "stale-volume-handle-accepted-by-open-root-dir", "open_root_dir accepted the handle of a volume that had been closed".into()),
            Ok(()) => it_div(it, "stale-handle-accepted", format!("{} accepted a handle that had been closed", m)),
        }
    }
    // keep the implementation usable if it handed something out
    for d in leaked_dirs {
        let _ = it_call(it, info, |a| a.close_dir(d, Surf::Raw));
    }
    for f in leaked_files {
        let _ = it_call(it, info, |a| a.close_file(f, Surf::Raw, false));
    }
}

fn it_div(it: &mut Interp, code: &'static str, detail: String) {
    let sig = format!("C08/{}", code);
    if it.tolerate.contains(&sig) {
        if !it.known_hits.contains(&sig) {
            it.known_hits.push(sig);
        }
        return;
    }
    it.divs.push(crate::interp::Divergence { prop: "C08", code, detail, step: it.step_no });
}

fn it_call<R>(it: &mut Interp, info: &mut StepInfo, f: impl FnOnce(&dyn Api) -> R) -> Option<R> {
    it.disk.begin_api_call();
    let api = it.api.take().unwrap();
    let r = std::panic::catch_unwind(std::panic::AssertUnwindSafe(|| f(&*api)));
    it.api = Some(api);
    match r {
        Ok(v) => Some(v),
        Err(p) => {
            let (m, budget) = crate::interp::panic_msg(&p);
            info.panicked = Some(m.clone());
            info.budget_exceeded = budget;
            it.divs.push(crate::interp::Divergence { prop: "ANY", code: "panic", detail: format!("{} panicked: {}", info.kind, m), step: it.step_no });
            None
        }
    }
}

fn reenter(it: &mut Interp, info: &mut StepInfo, d: u16, lfn: bool, at: u8) {
    let Some(i) = pick(&it.dirs, d) else {
        info.skipped = true;
        return;
    };
    let od = it.dirs[i].clone();
    info.kind = "Reenter";
    info.slot = Some(od.slot);
    let vol = od.vol;
    let file = it.files.first().map(|f| f.h);
    let free_slot = (0..4usize).find(|s| !it.vols.iter().any(|v| v.slot == *s)).unwrap_or(0);
    let at = at as usize % 4;
    let r = it_call(it, info, |a| {
        let mut results: Vec<(&'static str, Result<(), String>)> = Vec::new();
        let mut seen = 0usize;
        let mut fired = false;
        let mut body = |a: &dyn Api, results: &mut Vec<(&'static str, Result<(), String>)>| {
            // every public Result-returning method, with valid live handles
            results.push(("open_volume", outcome(&a.open_volume(free_slot, Surf::Raii))));
            results.push(("open_raw_volume", outcome(&a.open_volume(free_slot, Surf::Raw))));
            results.push(("open_root_dir", outcome(&a.open_root_dir(vol, Surf::Raw))));
            results.push(("open_dir", outcome(&a.open_dir(od.h, ".", Surf::Raw))));
            results.push(("find_directory_entry", outcome(&a.find(od.h, "A", Surf::Raw))));
            results.push(("iterate_dir", outcome(&a.iterate(od.h, Surf::Raw, &mut |_| {}))));
            let mut b = [0u8; 32];
            results.push(("iterate_dir_lfn", outcome(&a.iterate_lfn(od.h, Surf::Raw, &mut b, &mut |_, _| {}))));
            results.push(("open_file_in_dir", outcome(&a.open_file(od.h, "REENTER.TMP", Mode::ReadWriteCreateOrAppend, Surf::Raw))));
            results.push(("delete_file_in_dir", outcome(&a.delete(od.h, "A", Surf::Raw))));
            results.push(("make_dir_in_dir", outcome(&a.mkdir(od.h, "REENTDIR", Surf::Raw))));
            results.push(("get_root_volume_label", outcome(&a.label(vol))));
            if let Some(f) = file {
                let mut buf = [0u8; 8];
                results.push(("read", outcome(&a.read(f, &mut buf, Surf::Raw))));
                results.push(("write", outcome(&a.write(f, b"x", Surf::Raw))));
                results.push(("read", outcome(&a.read(f, &mut [], Surf::Raw))));
                results.push(("write", outcome(&a.write(f, b"", Surf::Raw))));
                results.push(("flush_file", outcome(&a.flush(f, Surf::Raw))));
                results.push(("file_eof", outcome(&a.eof(f, Surf::Raw))));
                results.push(("file_seek_from_start", outcome(&a.seek_start(f, 0, Surf::Raw))));
                results.push(("file_seek_from_current", outcome(&a.seek_cur(f, 0, Surf::Raw))));
                results.push(("file_seek_from_end", outcome(&a.seek_end(f, 0, Surf::Raw))));
                results.push(("file_length", outcome(&a.length(f, Surf::Raw))));
                results.push(("file_offset", outcome(&a.offset(f, Surf::Raw))));
                // the embedded-io adapters of an object wrapped around the same handle
                results.push(("Seek::seek(Start)", outcome(&a.io_seek(f, 0, 0))));
                results.push(("Seek::seek(End)", outcome(&a.io_seek(f, 1, 0))));
                results.push(("Seek::seek(Current)", outcome(&a.io_seek(f, 2, 0))));
                results.push(("Seek::seek(Current, +2^32)", outcome(&a.io_seek(f, 2, 1i64 << 32))));
                results.push(("Seek::seek(Current, -2^32)", outcome(&a.io_seek(f, 2, -(1i64 << 32)))));
                results.push(("Seek::seek(Current, i64::MAX)", outcome(&a.io_seek(f, 2, i64::MAX))));
                results.push(("Seek::seek(Start, 2^32)", outcome(&a.io_seek(f, 0, 1i64 << 32))));
                results.push(("Seek::seek(End, +1)", outcome(&a.io_seek(f, 1, 1))));
                results.push(("Read::read(empty)", outcome(&a.read(f, &mut [], Surf::Io))));
                results.push(("Write::write(empty)", outcome(&a.write(f, b"", Surf::Io))));
                let mut buf = [0u8; 8];
                results.push(("Read::read", outcome(&a.read(f, &mut buf, Surf::Io))));
                results.push(("Write::write", outcome(&a.write(f, b"x", Surf::Io))));
                results.push(("Write::flush", outcome(&a.flush(f, Surf::Io))));
                results.push(("close_file", outcome(&a.close_file(f, Surf::Raw, false))));
            }
            results.push(("close_dir", outcome(&a.close_dir(od.h, Surf::Raw))));
            results.push(("close_volume", outcome(&a.close_volume(vol, Surf::Raw))));
        };
        let outer = if lfn {
            let mut buf = [0u8; 64];
            let mut cb = |_e: &embedded_sdmmc::DirEntry, _n: Option<&str>| {
                if !fired && seen >= at {
                    fired = true;
                    body(a, &mut results);
                }
                seen += 1;
            };
            let r = a.iterate_lfn(od.h, Surf::Raw, &mut buf, &mut cb);
            outcome(&r)
        } else {
            let mut cb = |_e: &embedded_sdmmc::DirEntry| {
                if !fired && seen >= at {
                    fired = true;
                    body(a, &mut results);
                }
                seen += 1;
            };
            let r = a.iterate(od.h, Surf::Raw, &mut cb);
            outcome(&r)
        };
        // a directory with fewer than `at`+1 entries: fire on whatever came last is not possible; report
        (results, outer, fired)
    });
    let Some((results, outer, fired)) = r else { return };
    info.ok = outer.is_ok();
    if !fired {
        info.skipped = true;
        return;
    }
    info.refused = true;
    for (m, r) in &results {
        match r {
            Err(k) if k == "LockError" => {}
            Err(k) => it_div(it, "reentrant-wrong-error", format!("{} called from inside an iteration callback returned {} instead of LockError", m, k)),
            Ok(()) => it_div(it, "reentrant-call-succeeded", format!("{} called from inside an iteration callback succeeded", m)),
        }
    }
    if let Err(k) = outer {
        it_div(it, "iteration-failed-after-reentrant-calls", format!("the outer iteration returned {}", k));
    }
    it.stats.by_kind.entry("reentrant-calls").and_modify(|x| *x += results.len() as u64).or_insert(results.len() as u64);
    // every handle must still work: re-query all open files
    for k in 0..it.files.len() {
        let of = it.files[k].clone();
        it.query_file(info, &of, Surf::Raw);
    }
}
