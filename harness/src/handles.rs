//! C08 special ops: stale handles and re-entrant calls (filled in below).
use crate::api::Surf;
use crate::interp::{Interp, StepInfo};
use crate::ops::Op;

pub fn exec_special(_it: &mut Interp, info: &mut StepInfo, _op: &Op, _surf: Surf) {
    info.skipped = true;
}
