use sdmmc_verif::engines::{dirgen, fsx, pure};
use sdmmc_verif::interp::Case;
use sdmmc_verif::runner::{self, is_open_known, Acc, EvidenceIn, Failure, Outcome, Tier};
use sdmmc_verif::*;
use serde_json::json;

fn env_seed() -> u64 {
    std::env::var("VERIF_SEED").ok().and_then(|s| s.parse::<u64>().ok()).unwrap_or(1)
}

fn env_cases(default: u64) -> u64 {
    std::env::var("VERIF_CASES").ok().and_then(|s| s.parse().ok()).unwrap_or(default)
}

const FS_ASSUMPTIONS: [&str; 2] = [
    "block device model: single-block reads/writes are atomic and ordered",
    "oracle side (formatter, reader, checker) is written from the FAT specification and self-tested against tests/disk.img.gz in setup",
];

/// fsx-engine pass for one property; returns the outcome (corpus replayed first).
fn fsx_pass(prop: &'static str, tier: Tier, seed: u64, cases: u64) -> Outcome {
    let cfg = fsx::cfg_for(prop);
    let known = runner::load_known();
    let mut pre = Acc::default();
    let corpus_fail = runner::replay_corpus::<Case>(prop, &mut pre, &|c, a| fsx::run_case(&cfg, c, a, &known, false));
    let mut out = if let Some(v) = corpus_fail {
        Outcome { acc: Acc::default(), violation: Some(v), wall_s: 0.0 }
    } else {
        runner::run_parallel(prop, seed, cases, || fsx::strategy(&cfg), |c: &Case, a| fsx::run_case(&cfg, c, a, &known, false))
    };
    let _ = tier;
    out.acc.merge(pre);
    out
}

/// Additional stage of every file-system / SD check: byte strings decoded structurally
/// (the decoders of the libFuzzer targets) into cases and run under the same oracle.
/// Returns the engine name of the failing case, if any.
fn byte_stage(prop: &'static str, tier: Tier, seed: u64, out: &mut Outcome) -> Option<&'static str> {
    use proptest::prelude::*;
    if out.violation.is_some() {
        return None;
    }
    let heavy = matches!(prop, "C09" | "C10" | "C11");
    let n = env_cases(0).max(0);
    let cases = if n > 0 { n / 8 + 1 } else if heavy { tier.pick(150, 20_000) } else { tier.pick(1_500, 300_000) };
    let tag = format!("{}-bytes", prop);
    let o = runner::run_parallel(
        &tag,
        seed,
        cases,
        || prop::collection::vec(any::<u8>(), 16..1600).boxed(),
        |data: &Vec<u8>, a: &mut Acc| {
            a.class("byte-decoded-cases");
            fuzzing::check_bytes(prop, data, a).map_err(|(f, _, _)| f)
        },
    );
    out.wall_s += o.wall_s;
    out.acc.merge(o.acc);
    if let Some((f, bytes)) = o.violation {
        let data: Vec<u8> = serde_json::from_value(bytes).unwrap_or_default();
        let mut scratch = Acc::default();
        return match fuzzing::check_bytes(prop, &data, &mut scratch) {
            Err((f2, engine, case)) => {
                out.violation = Some((f2, case));
                Some(engine)
            }
            Ok(()) => {
                out.violation = Some((f, serde_json::json!({ "raw_fuzz_input": data })));
                Some("bytes")
            }
        };
    }
    None
}

fn run_fsx(prop: &'static str, tier: Tier, level: &'static str) -> i32 {
    let seed = env_seed();
    let mut out = fsx_pass(prop, tier, seed, env_cases(fsx::quick_cases(prop, tier)));
    let mut engine = "fsx";
    if prop == "C01" && out.violation.is_none() {
        // files of 2-4 GiB: 64-bit seek arithmetic and the 4 GiB - 1 size limit
        use sdmmc_verif::engines::bigfile;
        let n = env_cases(0);
        let cases = if n > 0 { n / 50 + 1 } else { tier.pick(400, 12_000) };
        let mut pre = Acc::default();
        let corpus_fail = runner::replay_corpus::<bigfile::BigCase>("C01-bigfile", &mut pre, &|c, a| bigfile::run_case(c, a, false));
        let o = if let Some(v) = corpus_fail {
            Outcome { acc: Acc::default(), violation: Some(v), wall_s: 0.0 }
        } else {
            runner::run_parallel("C01-bigfile", seed, cases, bigfile::strategy, |c: &bigfile::BigCase, a| bigfile::run_case(c, a, false))
        };
        out.wall_s += o.wall_s;
        out.acc.merge(o.acc);
        out.acc.merge(pre);
        if o.violation.is_some() {
            out.violation = o.violation;
            engine = "bigfile";
        }
    }
    if prop == "C04" && out.violation.is_none() {
        // the same classifier on histories with one failing device call
        use sdmmc_verif::engines::faults;
        let cfg = faults::cfg_c04();
        let thorough = tier == Tier::Thorough;
        let n = env_cases(0);
        let cases = if n > 0 { n / 8 + 1 } else { tier.pick(1_500, 20_000) };
        let o = runner::run_parallel("C04-faults", seed, cases, || fsx::strategy(&cfg), |c: &Case, a| faults::run_case_c04(&cfg, c, a, false, thorough));
        out.wall_s += o.wall_s;
        out.acc.merge(o.acc);
        if o.violation.is_some() {
            out.violation = o.violation;
            engine = "c04-faults";
        }
    }
    if prop == "C05" && out.violation.is_none() {
        // fill / release / refill cycles
        use sdmmc_verif::engines::c05;
        let n = env_cases(0);
        let cases = if n > 0 { n / 16 + 1 } else { tier.pick(400, 30_000) };
        let o = runner::run_parallel("C05-fill", seed, cases, c05::fill_strategy, |c: &c05::FillCase, a| c05::run_fill_case(c, a, false));
        out.wall_s += o.wall_s;
        out.acc.merge(o.acc);
        if o.violation.is_some() {
            out.violation = o.violation;
            engine = "c05-fill";
        }
    }
    if let Some(e) = byte_stage(prop, tier, seed, &mut out) {
        engine = e;
    }
    let ev = EvidenceIn {
        prop,
        tier,
        seed,
        level,
        rule: fsx::rule_for(prop),
        exhaustive: None,
        assumptions: FS_ASSUMPTIONS.iter().map(|s| s.to_string()).collect(),
        extra: json!({}),
    };
    runner::finish(engine, &out, &ev)
}

fn dir_pass(prop: &'static str, seed: u64, cases: u64, c06: bool, c17: bool) -> Outcome {
    let known = runner::load_known();
    let test = |c: &dirgen::DirCase, a: &mut Acc| -> Result<(), Failure> {
        match dirgen::run_case(c, a, c06, c17, false) {
            Err(f) if is_open_known(&known, prop, &f.sig) => {
                a.known(&f.sig);
                Ok(())
            }
            r => r,
        }
    };
    let mut pre = Acc::default();
    let sub = format!("{}-dir", prop);
    let corpus_fail = runner::replay_corpus::<dirgen::DirCase>(&sub, &mut pre, &|c, a| test(c, a));
    let mut out = if let Some(v) = corpus_fail {
        Outcome { acc: Acc::default(), violation: Some(v), wall_s: 0.0 }
    } else {
        runner::run_parallel(&sub, seed, cases, || dirgen::case_strategy(c17), test)
    };
    out.acc.merge(pre);
    out
}

fn run_crash(prop: &'static str, tier: Tier) -> i32 {
    use sdmmc_verif::engines::crash;
    let seed = env_seed();
    let cfg = crash::cfg_for(prop);
    let known = runner::load_known();
    let thorough = tier == Tier::Thorough;
    let cases = env_cases(match prop {
        "C09" => tier.pick(15_000, 500_000),
        _ => tier.pick(20_000, 600_000),
    });
    let mut pre = Acc::default();
    let corpus_fail = runner::replay_corpus::<Case>(prop, &mut pre, &|c, a| crash::run_case(&cfg, c, a, &known, false, thorough));
    let mut out = if let Some(v) = corpus_fail {
        Outcome { acc: Acc::default(), violation: Some(v), wall_s: 0.0 }
    } else {
        runner::run_parallel(prop, seed, cases, || fsx::strategy(&cfg), |c: &Case, a| crash::run_case(&cfg, c, a, &known, false, thorough))
    };
    out.acc.merge(pre);
    let engine = byte_stage(prop, tier, seed, &mut out).unwrap_or("crash");
    let rule = if prop == "C09" {
        "generated histories with flush/close followed by other activity; for every successful flush/close of a file, every prefix of the later block-write sequence (until the file itself is next written, truncated or deleted) is materialised and the file is read by the independent reader (all prefixes) and by a fresh mount (every 4th prefix; all in thorough). evaluations = histories + (snapshot, prefix) pairs; non-trivial pair = a later write in the window hits the FAT or a directory/data block; distinct by (geometry, path length, size class, distance)"
    } else {
        "generated mutating histories on volumes whose free clusters hold stale directory entries; the medium after EVERY prefix of the block-write sequence must mount (fresh VolumeManager) and pass the crash-mode checker (no entry/chain through free, bad or out-of-range clusters, no cross-link, no cycle, no stale contents exposed, no directory entry without cluster). evaluations = histories + prefixes; non-trivial prefix = strictly inside an operation that issues >= 2 writes; distinct by (geometry, op kind, position within op)"
    };
    let ev = EvidenceIn {
        prop,
        tier,
        seed,
        level: "fault_enumeration",
        rule,
        exhaustive: None,
        assumptions: vec![
            "block writes are atomic and reach the medium in issue order (as the property states)".into(),
            "crash points are enumerated completely per generated history; histories are sampled".into(),
        ],
        extra: json!({}),
    };
    runner::finish(engine, &out, &ev)
}

fn run_c11(tier: Tier) -> i32 {
    use sdmmc_verif::engines::faults;
    let seed = env_seed();
    let cfg = faults::cfg();
    let known = runner::load_known();
    let thorough = tier == Tier::Thorough;
    let cases = env_cases(tier.pick(1_500, 60_000));
    let mut pre = Acc::default();
    let corpus_fail = runner::replay_corpus::<Case>("C11", &mut pre, &|c, a| faults::run_case(c, a, &known, false, thorough));
    let mut out = if let Some(v) = corpus_fail {
        Outcome { acc: Acc::default(), violation: Some(v), wall_s: 0.0 }
    } else {
        runner::run_parallel("C11", seed, cases, || fsx::strategy(&cfg), |c: &Case, a| faults::run_case(c, a, &known, false, thorough))
    };
    out.acc.merge(pre);
    let engine = byte_stage("C11", tier, seed, &mut out).unwrap_or("faults");
    let ev = EvidenceIn {
        prop: "C11",
        tier,
        seed,
        level: "fault_enumeration",
        rule: "generated short histories (3-14 ops) on volumes with multi-cluster directories; each history is re-executed with a transient fault (read buffer scribbled) at EVERY device-call index (thinned to 400 per history in quick), with a dead device from every 6th index, and with three multi-fault sets. The faulted call must return Err, no panic/hang (device-call budget), failed read-only calls are retried and must then match the model, all handles must close, no directory may end with duplicate names and every file not involved in a failed call must read back intact through a fresh mount. evaluations = histories + fault executions; non-trivial = the fault fired after the first device call of the API call; distinct by (geometry, op-kind sequence, fault plan)",
        exhaustive: None,
        assumptions: vec![
            "a failing device call returns Err to the crate and leaves the medium unchanged; failed reads scribble the caller's buffer".into(),
            "dropping RAII wrappers swallows errors by documented design, so closes are explicit in this check".into(),
        ],
        extra: json!({}),
    };
    runner::finish(engine, &out, &ev)
}

fn run_c15(tier: Tier) -> i32 {
    use sdmmc_verif::engines::mount;
    let seed = env_seed();
    let known = runner::load_known();
    let t0 = std::time::Instant::now();
    let test = |c: &mount::MountCase, a: &mut Acc| -> Result<(), Failure> {
        match mount::run_case(c, a, false) {
            Err(f) if is_open_known(&known, "C15", &f.sig) => {
                a.known(&f.sig);
                Ok(())
            }
            r => r,
        }
    };
    let mut acc = Acc::default();
    let mut violation = runner::replay_corpus::<mount::MountCase>("C15", &mut acc, &|c, a| test(c, a));
    if violation.is_none() {
        violation = mount::enumerate_fields(&mut acc);
    }
    let mut out = Outcome { acc, violation, wall_s: 0.0 };
    if out.violation.is_none() {
        let o = runner::run_parallel("C15", seed, env_cases(tier.pick(20_000, 800_000)), mount::case_strategy, test);
        out.acc.merge(o.acc);
        out.violation = o.violation;
    }
    out.wall_s = t0.elapsed().as_secs_f64();
    let engine = byte_stage("C15", tier, seed, &mut out).unwrap_or("mount");
    let ev = EvidenceIn {
        prop: "C15",
        tier,
        seed,
        level: "exploration",
        rule: "valid half: proptest layouts over all BPB parameters (1-128 blocks per cluster, 1-2 FATs, reserved counts, root entry counts, 16/32-bit totals, partition slots 0-3, five partition types, cluster counts at 4085/4086/65524/65525/65526) built by the independent formatter; every placed file must read back through the crate and a file written through the crate must be found by the independent reader. invalid half: every mount-relevant field x 7 boundary values and all pairs of BPB layout fields (enumerated), random byte mutations, and random sectors with/without valid signatures; open_raw_volume(0..=4) must return Ok or Err without panic. distinct = hash of the geometry tuple / edit list / mutated bytes",
        exhaustive: None,
        assumptions: vec!["overflow and debug assertions are enabled in the build, so wrapping arithmetic on untrusted fields shows as a panic".into(), "device reads beyond the end of the device return Err, which is a legal outcome".into()],
        extra: json!({}),
    };
    runner::finish(engine, &out, &ev)
}

fn run_sd(prop: &'static str, tier: Tier) -> i32 {
    use sdmmc_verif::sd::engine as sde;
    let seed = env_seed();
    let known = runner::load_known();
    let faults = prop == "C13";
    let test = |c: &sde::SdCase, a: &mut Acc| -> Result<(), Failure> {
        let r = if faults { sde::run_c13(c, a) } else { sde::run_c12_c14(c, prop, a) };
        match r {
            Err(f) if is_open_known(&known, prop, &f.sig) => {
                a.known(&f.sig);
                Ok(())
            }
            r => r,
        }
    };
    let t0 = std::time::Instant::now();
    let mut acc = Acc::default();
    let mut violation = runner::replay_corpus::<sde::SdCase>(prop, &mut acc, &|c, a| test(c, a));
    if violation.is_none() && faults {
        violation = sdmmc_verif::sd::engine::enumerate_bit_flips(&mut acc, &test);
    }
    let mut out = Outcome { acc, violation, wall_s: 0.0 };
    if out.violation.is_none() {
        let near = tier == Tier::Thorough;
        let cases = env_cases(match prop {
            "C13" => tier.pick(30_000, 1_000_000),
            _ => tier.pick(12_000, 500_000),
        });
        let o = runner::run_parallel(prop, seed, cases, move || sde::case_strategy(faults, near), test);
        out.acc.merge(o.acc);
        out.violation = o.violation;
    }
    let mut engine = "sdsim";
    if prop == "C14" && out.violation.is_none() {
        // "calls after errors": faulted sequences, monitor on for the healthy prefix and after recovery
        let near = tier == Tier::Thorough;
        let n = env_cases(0);
        let cases = if n > 0 { n / 2 + 1 } else { tier.pick(12_000, 400_000) };
        let o = runner::run_parallel("C14-after-fault", seed, cases, move || sde::case_strategy(true, near), |c: &sde::SdCase, a: &mut Acc| sde::run_c14_after_fault(c, a));
        out.acc.merge(o.acc);
        if o.violation.is_some() {
            out.violation = o.violation;
            engine = "sdsim-after-fault";
        }
    }
    out.wall_s = t0.elapsed().as_secs_f64();
    if let Some(e) = byte_stage(prop, tier, seed, &mut out) {
        engine = e;
    }
    let (level, rule): (&str, &str) = match prop {
        "C12" => ("exploration", "card kind (v1 SC, v2 SC, HC) x CRC on/off x capacity (boundary C_SIZE / multiplier / READ_BL_LEN values) x timings (Ncr 0-8, data-token delay, busy periods, idle polls, ignored CMD0s) x 1-40 BlockDevice calls (read/write of 1, 2-8, 64 blocks at block numbers 0, 1, last, last-n, 2^k, 2^k-1, >= 2^23, random; read-back; num_blocks/num_bytes/get_card_type; mark_card_uninit) against a simulated card written from the SD specification. Oracle: model of the card memory compared everywhere after every call, and the same sequence with every n-block transfer done as n single transfers. non-trivial = contains a multi-block transfer and a read-back of a written block; distinct by (kind, crc, call-kind sequence, Ncr)"),
        "C14" => ("exploration", "the same generated runs as C12; every MOSI byte is checked by the card's protocol monitor (frame bits, CRC-7, busy, CMD55 prefix, identification order, data tokens, 512+2 framing with CRC-16 when on, CMD12 / stop token). Second stage (calls after errors): C13-style sequences with one injected fault, monitor judging the healthy prefix and everything sent after the card was power-cycled (traffic during the faulted call is not judged). non-trivial = run contains a multi-block write and a re-initialisation, or (second stage) calls after recovery; distinct by (kind, crc, command sequence on the bus) / (kind, crc, fault kind, call sequence)"),
        _ => ("fault_enumeration", "C12-style sequences with one injected fault: every single-bit flip position of a data block + CRC (4112 positions, enumerated for each card kind), bursts <= 16 bits, wrong data tokens, rejected data blocks, failed write status, card dead / busy / garbage from byte p, SPI bus error at transaction n. Ok only with correct data (CRC on), Err where the property requires it, SPI byte budget per driver call (20,000,000 bytes, enforced by the card) as termination bound, recovery after power-cycle (+ mark_card_uninit unless the failure was in the identification sequence). non-trivial = the fault fired; distinct by (kind, crc, fault, call-kind sequence)"),
    };
    let ev = EvidenceIn {
        prop,
        tier,
        seed,
        level,
        rule,
        exhaustive: None,
        assumptions: vec![
            "the card is modelled as a byte-stream peer that ignores chip-select framing (the driver issues one SPI transaction per helper call)".into(),
            "simulated card written from the SD Physical Layer Simplified Specification, independent of src/sdcard/proto.rs".into(),
        ],
        extra: json!({}),
    };
    runner::finish(engine, &out, &ev)
}

fn run_c06(tier: Tier) -> i32 {
    let seed = env_seed();
    let mut out = dir_pass("C06", seed, env_cases(tier.pick(12_000, 500_000)), true, false);
    let mut engine = "dirgen";
    if out.violation.is_none() {
        let o2 = fsx_pass("C06", tier, seed, env_cases(tier.pick(8_000, 300_000)));
        out.wall_s += o2.wall_s;
        out.acc.merge(o2.acc);
        if o2.violation.is_some() {
            out.violation = o2.violation;
            engine = "fsx";
        }
    }
    if let Some(e) = byte_stage("C06", tier, seed, &mut out) {
        engine = e;
    }
    let ev = EvidenceIn {
        prop: "C06",
        tier,
        seed,
        level: "exploration",
        rule: "(a) byte-level generated directories (live/deleted/LFN/label/junk slots, 1-6 clusters, fragmented chains, FAT16 roots, FAT32 roots anywhere), listed and looked up through the crate and through the independent reader, before and after 0-15 create/delete/mkdir calls; (b) model-based histories with list/find/open_dir. non-trivial = directory spans >= 2 clusters or has a deleted slot or an LFN run, and >= 3 live entries; distinct by (geometry, item-kind sequence, number of ops)",
        exhaustive: None,
        assumptions: FS_ASSUMPTIONS.iter().map(|s| s.to_string()).collect(),
        extra: json!({}),
    };
    runner::finish(engine, &out, &ev)
}

fn run_c17(tier: Tier) -> i32 {
    let seed = env_seed();
    let known = runner::load_known();
    let t0 = std::time::Instant::now();
    let mut acc = Acc::default();
    let mut engine = "lfnbuf";
    let mut violation = runner::replay_corpus::<pure::LfnBufCase>("C17", &mut acc, &|c, _a| pure::lfnbuf_check(c));
    if violation.is_none() {
        violation = pure::c17a_boundary_enumeration(&known, &mut acc);
    }
    let mut out = Outcome { acc, violation, wall_s: 0.0 };
    if out.violation.is_none() {
        let o = runner::run_parallel(
            "C17",
            seed,
            env_cases(tier.pick(60_000, 3_000_000)),
            pure::lfnbuf_case_strategy,
            |c: &pure::LfnBufCase, a: &mut Acc| match pure::lfnbuf_check(c) {
                Err(f) if is_open_known(&known, "C17", &f.sig) => {
                    a.known(&f.sig);
                    Ok(())
                }
                Err(f) => Err(f),
                Ok(()) => {
                    let need = pure::lfnbuf_expected(&c.frags).len() as i64;
                    let near = (need - c.size as i64).abs() <= 4;
                    let sur_at_boundary = c.frags.iter().any(|f| (0xD800..0xE000).contains(&f[0]) || (0xD800..0xE000).contains(&f[12]));
                    a.class(if c.size as i64 >= need { "buf:fits" } else { "buf:too-small" });
                    if sur_at_boundary {
                        a.class("surrogate-at-fragment-boundary");
                    }
                    if near || sur_at_boundary {
                        a.shape(&(&c.frags, c.size));
                        if a.samples.len() < 2 {
                            a.sample(json!({"fragments": c.frags.len(), "buffer": c.size, "needed": need, "first_fragment": c.frags[0]}));
                        }
                    }
                    Ok(())
                }
            },
        );
        out.acc.merge(o.acc);
        out.violation = o.violation;
    }
    if out.violation.is_none() {
        let o = dir_pass("C17", seed, env_cases(tier.pick(12_000, 500_000)), false, true);
        out.acc.merge(o.acc);
        if o.violation.is_some() {
            out.violation = o.violation;
            engine = "dirgen";
        }
    }
    out.wall_s = t0.elapsed().as_secs_f64();
    if let Some(e) = byte_stage("C17", tier, seed, &mut out) {
        engine = e;
    }
    let ev = EvidenceIn {
        prop: "C17",
        tier,
        seed,
        level: "exploration",
        rule: "(a) LfnBuffer: all 8^4 code-unit class combinations at a fragment boundary x 3 buffer sizes, plus proptest fragment sequences (1-20 fragments over 9 unit classes, buffer 0..=780 biased to +-4 of the need) against String::from_utf16_lossy; non-trivial = surrogate at a fragment boundary or buffer within 4 bytes of the need. (b) generated directories with well-formed and broken runs (wrong checksum, gap, duplicate, missing first/last, reordered, checksum twin, orphan) listed with iterate_dir_lfn; non-trivial = directory contains a broken run or a checksum twin. distinct by hash of the case shape",
        exhaustive: None,
        assumptions: vec!["don't-care classes (20-fragment runs, fragments with differing checksums, deleted slot between run and short entry, overflowed buffer) only require valid UTF-8 and no panic".into()],
        extra: json!({}),
    };
    runner::finish(engine, &out, &ev)
}

fn replay(path: &str) -> i32 {
    let s = std::fs::read_to_string(path).expect("cannot read replay file");
    let rf: runner::ReplayFile = serde_json::from_str(&s).expect("not a replay file");
    let known = runner::load_known();
    println!("replaying {} ({}): recorded signature {}", rf.property, rf.engine, rf.signature);
    let prop: &'static str = Box::leak(rf.property.clone().into_boxed_str());
    let mut acc = Acc::default();
    let r: Result<(), Failure> = match rf.engine.as_str() {
        "fsx" => {
            let case: Case = serde_json::from_value(rf.case).expect("case does not parse");
            fsx::run_case(&fsx::cfg_for(prop), &case, &mut acc, &known, true)
        }
        "crash" => {
            let case: Case = serde_json::from_value(rf.case).expect("case does not parse");
            sdmmc_verif::engines::crash::run_case(&sdmmc_verif::engines::crash::cfg_for(prop), &case, &mut acc, &known, true, true)
        }
        "bigfile" => {
            let case: sdmmc_verif::engines::bigfile::BigCase = serde_json::from_value(rf.case).expect("case does not parse");
            sdmmc_verif::engines::bigfile::run_case(&case, &mut acc, true)
        }
        "c05-fill" => {
            let case: sdmmc_verif::engines::c05::FillCase = serde_json::from_value(rf.case).expect("case does not parse");
            sdmmc_verif::engines::c05::run_fill_case(&case, &mut acc, true)
        }
        "c04-faults" => {
            let case: Case = serde_json::from_value(rf.case).expect("case does not parse");
            let cfg = sdmmc_verif::engines::faults::cfg_c04();
            sdmmc_verif::engines::faults::run_case_c04(&cfg, &case, &mut acc, true, true)
        }
        "faults" => {
            let case: Case = serde_json::from_value(rf.case).expect("case does not parse");
            sdmmc_verif::engines::faults::run_case(&case, &mut acc, &known, true, true)
        }
        "mount" => {
            let case: sdmmc_verif::engines::mount::MountCase = serde_json::from_value(rf.case).expect("case does not parse");
            sdmmc_verif::engines::mount::run_case(&case, &mut acc, true)
        }
        "sdsim-after-fault" => {
            let case: sdmmc_verif::sd::engine::SdCase = serde_json::from_value(rf.case).expect("case does not parse");
            sdmmc_verif::sd::engine::run_c14_after_fault(&case, &mut acc)
        }
        "sdsim" => {
            let case: sdmmc_verif::sd::engine::SdCase = serde_json::from_value(rf.case).expect("case does not parse");
            if prop == "C13" {
                sdmmc_verif::sd::engine::run_c13(&case, &mut acc)
            } else {
                sdmmc_verif::sd::engine::run_c12_c14(&case, prop, &mut acc)
            }
        }
        "dirgen" => {
            let case: dirgen::DirCase = serde_json::from_value(rf.case).expect("case does not parse");
            dirgen::run_case(&case, &mut acc, prop == "C06", prop == "C17", true)
        }
        "lfnbuf" => {
            let case: pure::LfnBufCase = serde_json::from_value(rf.case).expect("case does not parse");
            pure::lfnbuf_check(&case)
        }
        "codec" => {
            let case: pure::CodecCase = serde_json::from_value(rf.case).expect("case does not parse");
            pure::replay_codec(&case)
        }
        "crc" => {
            let case: pure::CrcCase = serde_json::from_value(rf.case).expect("case does not parse");
            pure::replay_crc(&case)
        }
        other => {
            eprintln!("unknown engine {}", other);
            return 2;
        }
    };
    match r {
        Ok(()) => {
            println!("replay: property held");
            0
        }
        Err(f) => {
            println!("{}: {}", f.sig, f.detail);
            println!("VIOLATION property={} replay={}", prop, path);
            1
        }
    }
}

fn main() {
    let args: Vec<String> = std::env::args().collect();
    runner::install_quiet_panic_hook();
    runner::start_watchdog(std::env::var("VERIF_STALL_S").ok().and_then(|s| s.parse().ok()).unwrap_or(300));
    let code = match args.get(1).map(|s| s.as_str()) {
        Some("selftest") => selftest::run(600),
        Some("replay") => replay(&args[2]),
        Some("fuzzone") => {
            // run one raw fuzz input through the byte decoder + oracle of a property: fuzzone <prop> <file>
            let data = std::fs::read(&args[3]).expect("cannot read input");
            let prop: &'static str = Box::leak(args[2].clone().into_boxed_str());
            let mut acc = Acc::default();
            match fuzzing::check_bytes(prop, &data, &mut acc) {
                Ok(()) => {
                    println!("input handled without violation");
                    0
                }
                Err((f, engine, case)) => {
                    let path = runner::write_replay(prop, engine, &f, &case);
                    println!("{}: {}", f.sig, f.detail);
                    println!("VIOLATION property={} replay={}", prop, path);
                    1
                }
            }
        }
        Some("check") => {
            let prop = args[2].as_str();
            let tier = match std::env::var("VERIF_TIER").ok().as_deref().or(args.get(3).map(|s| s.as_str())) {
                Some("thorough") => Tier::Thorough,
                _ => Tier::Quick,
            };
            match prop {
                "C01" => run_fsx("C01", tier, "exploration"),
                "C02" => run_fsx("C02", tier, "exploration"),
                "C03" => run_fsx("C03", tier, "exploration"),
                "C04" => run_fsx("C04", tier, "exploration"),
                "C05" => run_fsx("C05", tier, "exploration"),
                "C06" => run_c06(tier),
                "C07" => run_fsx("C07", tier, "exploration"),
                "C08" => run_fsx("C08", tier, "exploration"),
                "C09" => run_crash("C09", tier),
                "C10" => run_crash("C10", tier),
                "C11" => run_c11(tier),
                "C12" => run_sd("C12", tier),
                "C13" => run_sd("C13", tier),
                "C14" => run_sd("C14", tier),
                "C15" => run_c15(tier),
                "C16" => run_fsx("C16", tier, "exploration"),
                "C17" => run_c17(tier),
                "C18" => pure::run_c18(tier, env_seed()),
                "C19" => pure::run_c19(tier, env_seed()),
                _ => {
                    eprintln!("unknown property {}", prop);
                    2
                }
            }
        }
        _ => {
            eprintln!("usage: verif selftest | check <id> [quick|thorough] | replay <file>");
            2
        }
    };
    std::process::exit(code);
}
