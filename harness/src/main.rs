use sdmmc_verif::engines::fsx;
use sdmmc_verif::interp::Case;
use sdmmc_verif::runner::{self, Acc, EvidenceIn, Tier};
use sdmmc_verif::*;
use serde_json::json;

fn env_seed() -> u64 {
    std::env::var("VERIF_SEED").ok().and_then(|s| s.parse::<u64>().ok()).unwrap_or(1)
}

fn run_fsx(prop: &'static str, tier: Tier, level: &'static str) -> i32 {
    let seed = env_seed();
    let cfg = fsx::cfg_for(prop);
    let known = runner::load_known();
    let cases = std::env::var("VERIF_CASES").ok().and_then(|s| s.parse().ok()).unwrap_or(fsx::quick_cases(prop, tier));
    // regression corpus first
    let mut pre = Acc::default();
    let corpus_fail = runner::replay_corpus::<Case>(prop, &mut pre, &|c, a| fsx::run_case(&cfg, c, a, &known, false));
    let mut out = if let Some(v) = corpus_fail {
        runner::Outcome { acc: Acc::default(), violation: Some(v), wall_s: 0.0 }
    } else {
        runner::run_parallel(prop, seed, cases, || fsx::strategy(&cfg), |c: &Case, a| fsx::run_case(&cfg, c, a, &known, false))
    };
    out.acc.merge(pre);
    let ev = EvidenceIn {
        prop,
        tier,
        seed,
        level,
        rule: fsx::rule_for(prop),
        exhaustive: None,
        assumptions: vec![
            "block device model: single-block reads/writes are atomic and ordered; no faults injected in this check".into(),
            "oracle side (formatter, reader, checker) is written from the FAT specification and self-tested against tests/disk.img.gz in setup".into(),
        ],
        extra: json!({}),
    };
    runner::finish("fsx", &out, &ev)
}

fn replay(path: &str) -> i32 {
    let s = std::fs::read_to_string(path).expect("cannot read replay file");
    let rf: runner::ReplayFile = serde_json::from_str(&s).expect("not a replay file");
    let known = runner::load_known();
    println!("replaying {} ({}): recorded signature {}", rf.property, rf.engine, rf.signature);
    let prop: &'static str = Box::leak(rf.property.clone().into_boxed_str());
    match rf.engine.as_str() {
        "fsx" => {
            let case: Case = serde_json::from_value(rf.case).expect("case does not parse");
            let cfg = fsx::cfg_for(prop);
            let mut acc = Acc::default();
            match fsx::run_case(&cfg, &case, &mut acc, &known, true) {
                Ok(()) => {
                    println!("replay: property held");
                    0
                }
                Err(f) => {
                    println!("{}: {}", f.sig, f.detail);
                    println!("VIOLATION property={} replay={}", prop, path);
                    1
                }
            }
        }
        other => {
            eprintln!("unknown engine {}", other);
            2
        }
    }
}

fn main() {
    let args: Vec<String> = std::env::args().collect();
    runner::install_quiet_panic_hook();
    let code = match args.get(1).map(|s| s.as_str()) {
        Some("selftest") => selftest::run(300),
        Some("debug1") => { debug_one(); 0 }
        Some("replay") => replay(&args[2]),
        Some("check") => {
            let prop = args[2].as_str();
            let tier = match std::env::var("VERIF_TIER").ok().as_deref().or(args.get(3).map(|s| s.as_str())) {
                Some("thorough") => Tier::Thorough,
                _ => Tier::Quick,
            };
            match prop {
                "C01" => run_fsx("C01", tier, "exploration"),
                "C02" => run_fsx("C02", tier, "exploration"),
                "C03" => run_fsx("C03", tier, "exploration"),
                "C04" => run_fsx("C04", tier, "exploration"),
                "C05" => run_fsx("C05", tier, "exploration"),
                "C07" => run_fsx("C07", tier, "exploration"),
                "C16" => run_fsx("C16", tier, "exploration"),
                _ => {
                    eprintln!("unknown property {}", prop);
                    2
                }
            }
        }
        _ => {
            eprintln!("usage: verif selftest | check <id> [quick|thorough] | replay <file>");
            2
        }
    };
    std::process::exit(code);
}
#[allow(dead_code)]
pub fn debug_one() {
    use proptest::strategy::{Strategy, ValueTree};
    use proptest::test_runner::{Config, RngAlgorithm, TestRng, TestRunner};
    let cfg = fsx::cfg_for("C01");
    let mut runner = TestRunner::new_with_rng(Config::default(), TestRng::from_seed(RngAlgorithm::ChaCha, &[3u8; 32]));
    eprintln!("building strategy");
    let s = fsx::strategy(&cfg);
    eprintln!("generating");
    let c = s.new_tree(&mut runner).unwrap().current();
    eprintln!("generated {} steps", c.steps.len());
    let mut acc = Acc::default();
    let r = fsx::run_case(&cfg, &c, &mut acc, &[], true);
    eprintln!("{:?}", r.is_ok());
}
