//! Independent formatter, written from the Microsoft FAT specification
//! (fatgen103). Shares no code or constants with the crate under test.

use crate::simdisk::{Fill, Image, Img, Region};
use serde::{Deserialize, Serialize};
use std::collections::HashMap;

#[derive(Clone, Debug, Serialize, Deserialize, PartialEq)]
pub enum FsInfoKind {
    Correct,
    Unknown,
    Stale { count: u32, next: u32 },
}

#[derive(Clone, Debug, Serialize, Deserialize, PartialEq)]
pub struct VolGeom {
    pub fat32: bool,
    pub spc: u8,
    pub reserved: u16,
    pub num_fats: u8,
    /// FAT16 only; multiple of 16. 0 = derive from the tree
    pub root_entries: u16,
    pub clusters: u32,
    pub fat_slack: u16,
    pub tail_slack: u8,
    pub total16: bool,
    pub fsinfo_sector: u16,
    pub root_late: bool,
    pub fsinfo: FsInfoKind,
    pub part_type: u8,
    pub gap_before: u16,
    pub hi_nibbles: bool,
    pub label: bool,
}

#[derive(Clone, Debug, Serialize, Deserialize, PartialEq)]
pub struct Usable {
    /// all clusters usable (FAT background zero) - otherwise everything not
    /// listed is marked bad
    pub all: bool,
    pub low: u16,
    pub mid: u16,
    pub high: u16,
    /// leave exactly this many clusters free (if fewer are naturally free,
    /// nothing happens)
    pub free_after: Option<u16>,
    pub frag_seed: u32,
    pub fragmented: bool,
}

#[derive(Clone, Copy, Debug, Serialize, Deserialize, PartialEq, Default)]
pub struct Times {
    pub cdate: u16,
    pub ctime: u16,
    pub ctenths: u8,
    pub mdate: u16,
    pub mtime: u16,
    pub adate: u16,
}

pub type Raw32 = [u8; 32];

#[derive(Clone, Debug, Serialize, Deserialize, PartialEq)]
pub enum Slot {
    File {
        name: [u8; 11],
        attr: u8,
        size: u32,
        seed: u32,
        extra: u8,
        times: Times,
        pre: Vec<Raw32>,
    },
    Dir {
        name: [u8; 11],
        attr: u8,
        children: Vec<Slot>,
        extra: u8,
        pad_free: Option<u16>,
        times: Times,
        pre: Vec<Raw32>,
    },
    /// arbitrary slots whose first byte is non-zero (deleted, LFN, label, junk)
    Raw(Vec<Raw32>),
}

#[derive(Clone, Debug, Serialize, Deserialize, PartialEq)]
pub struct VolSpec {
    pub geom: VolGeom,
    pub usable: Usable,
    pub root: Vec<Slot>,
    pub root_pad_free: Option<u16>,
    pub root_extra: u8,
    pub stale: bool,
}

#[derive(Clone, Debug, Serialize, Deserialize, PartialEq)]
pub struct DiskSpec {
    /// partition slot i holds vols[i] (None = unused slot)
    pub vols: Vec<Option<VolSpec>>,
    pub guard: u16,
}

/// Layout of one volume (absolute block numbers where noted).
#[derive(Clone, Debug, PartialEq)]
pub struct Layout {
    pub part_start: u32,
    pub part_len: u32,
    pub fat32: bool,
    pub spc: u32,
    pub reserved: u32,
    pub num_fats: u32,
    pub fat_sectors: u32,
    pub root_entries: u32,
    pub root_sectors: u32,
    /// relative to part_start
    pub first_data: u32,
    pub clusters: u32,
    pub root_cluster: u32,
    pub fsinfo_sector: u32,
    pub total: u32,
}

impl Layout {
    pub fn cluster_bytes(&self) -> u32 {
        self.spc * 512
    }
    pub fn fat_start(&self, copy: u32) -> u32 {
        self.part_start + self.reserved + copy * self.fat_sectors
    }
    pub fn root16_start(&self) -> u32 {
        self.part_start + self.reserved + self.num_fats * self.fat_sectors
    }
    pub fn cluster_block(&self, c: u32) -> u32 {
        self.part_start + self.first_data + (c - 2) * self.spc
    }
    pub fn data_start(&self) -> u32 {
        self.part_start + self.first_data
    }
    pub fn data_end(&self) -> u32 {
        self.part_start + self.first_data + self.clusters * self.spc
    }
    pub fn entry_size(&self) -> u32 {
        if self.fat32 {
            4
        } else {
            2
        }
    }
    pub fn in_range(&self, c: u32) -> bool {
        c >= 2 && c < self.clusters + 2
    }
}

/// What the formatter placed: used by the reference model and the self-test.
#[derive(Clone, Debug)]
pub struct PNode {
    pub name: [u8; 11],
    pub attr: u8,
    pub is_dir: bool,
    pub size: u32,
    pub seed: u32,
    pub chain: Vec<u32>,
    pub children: Vec<PNode>,
    /// absolute block and byte offset of the 32-byte entry (0,0 for root)
    pub entry_loc: (u32, u32),
    pub times: Times,
    /// raw 32 bytes as written
    pub raw: Raw32,
}

/// The volume label the formatter writes (boot sector and first root slot). It is a valid 8.3
/// name from the pool the histories draw their names from, so that files, directories and
/// lookups of the same name as the label occur.
pub const LABEL_NAME: &[u8; 11] = b"LOG        ";

#[derive(Clone, Debug)]
pub struct PVol {
    pub layout: Layout,
    pub root: PNode,
    pub free: Vec<u32>,
    pub slot: usize,
}

pub fn content_byte(seed: u32, i: u32) -> u8 {
    let x = (seed as u64)
        .wrapping_mul(0x9E37_79B9_7F4A_7C15)
        .wrapping_add((i as u64).wrapping_mul(0xD1B5_4A32_D192_ED03));
    ((x ^ (x >> 29)) >> 17) as u8
}

pub fn content(seed: u32, len: u32) -> Vec<u8> {
    (0..len).map(|i| content_byte(seed, i)).collect()
}

pub fn lfn_checksum(name: &[u8; 11]) -> u8 {
    let mut s: u8 = 0;
    let mut stored = *name;
    if stored[0] == 0xE5 {
        stored[0] = 0x05;
    }
    for &b in stored.iter() {
        s = (if s & 1 != 0 { 0x80u8 } else { 0 })
            .wrapping_add(s >> 1)
            .wrapping_add(b);
    }
    s
}

/// Build one LFN slot: ordinal (with 0x40 already or-ed in if last), 13 units.
pub fn lfn_slot(ord: u8, units: &[u16; 13], csum: u8) -> Raw32 {
    let mut e = [0u8; 32];
    e[0] = ord;
    let pos = [1usize, 3, 5, 7, 9, 14, 16, 18, 20, 22, 24, 28, 30];
    for (k, p) in pos.iter().enumerate() {
        e[*p..*p + 2].copy_from_slice(&units[k].to_le_bytes());
    }
    e[11] = 0x0F;
    e[12] = 0;
    e[13] = csum;
    e[26] = 0;
    e[27] = 0;
    e
}

/// Well-formed LFN run for a name given as UTF-16 units (<= 255), in on-disk
/// order (highest ordinal first).
pub fn lfn_run(units: &[u16], csum: u8) -> Vec<Raw32> {
    let mut padded: Vec<u16> = units.to_vec();
    if padded.len() % 13 != 0 {
        padded.push(0);
        while padded.len() % 13 != 0 {
            padded.push(0xFFFF);
        }
    }
    let n = padded.len() / 13;
    let mut out = Vec::new();
    for i in (0..n).rev() {
        let mut u = [0u16; 13];
        u.copy_from_slice(&padded[i * 13..i * 13 + 13]);
        let mut ord = (i + 1) as u8;
        if i == n - 1 {
            ord |= 0x40;
        }
        out.push(lfn_slot(ord, &u, csum));
    }
    out
}

pub fn short_entry(name: &[u8; 11], attr: u8, cluster: u32, size: u32, t: &Times, fat32: bool) -> Raw32 {
    let mut e = [0u8; 32];
    e[0..11].copy_from_slice(name);
    if e[0] == 0xE5 {
        // fatgen103: a name whose first character is 0xE5 is stored with 0x05 there,
        // because 0xE5 in that position marks a free slot
        e[0] = 0x05;
    }
    e[11] = attr;
    e[12] = 0;
    e[13] = t.ctenths;
    e[14..16].copy_from_slice(&t.ctime.to_le_bytes());
    e[16..18].copy_from_slice(&t.cdate.to_le_bytes());
    e[18..20].copy_from_slice(&t.adate.to_le_bytes());
    let hi = if fat32 { (cluster >> 16) as u16 } else { 0 };
    e[20..22].copy_from_slice(&hi.to_le_bytes());
    e[22..24].copy_from_slice(&t.mtime.to_le_bytes());
    e[24..26].copy_from_slice(&t.mdate.to_le_bytes());
    e[26..28].copy_from_slice(&(cluster as u16).to_le_bytes());
    e[28..32].copy_from_slice(&size.to_le_bytes());
    e
}

fn filler_name(i: u32) -> [u8; 11] {
    let s = format!("FILL{:04}TMP", i % 10000);
    let mut n = [b' '; 11];
    n.copy_from_slice(s.as_bytes());
    n
}

fn div_up(a: u32, b: u32) -> u32 {
    (a + b - 1) / b
}

struct Alloc {
    order: Vec<u32>,
    pos: usize,
    fat: HashMap<u32, u32>, // cluster -> value (28 bit)
    exhausted: bool,
    /// total clusters of the volume: the usable set grows on demand so that the
    /// requested tree always fits (the `low` figure is a minimum)
    limit: u32,
    scan: u32,
}

const EOC: u32 = 0x0FFF_FFFF;

impl Alloc {
    fn chain(&mut self, n: u32) -> Vec<u32> {
        let mut v = Vec::new();
        for _ in 0..n {
            if self.pos >= self.order.len() {
                // extend the usable set with the lowest cluster not yet in it
                let mut found = None;
                while self.scan < self.limit + 2 {
                    let c = self.scan;
                    self.scan += 1;
                    if !self.order.contains(&c) {
                        found = Some(c);
                        break;
                    }
                }
                match found {
                    Some(c) => self.order.push(c),
                    None => {
                        self.exhausted = true;
                        break;
                    }
                }
            }
            v.push(self.order[self.pos]);
            self.pos += 1;
        }
        for w in v.windows(2) {
            self.fat.insert(w[0], w[1]);
        }
        if let Some(l) = v.last() {
            self.fat.insert(*l, EOC);
        }
        v
    }
}

fn count_slots(slots: &[Slot]) -> u32 {
    let mut n = 0;
    for s in slots {
        n += match s {
            Slot::File { pre, .. } => pre.len() as u32 + 1,
            Slot::Dir { pre, .. } => pre.len() as u32 + 1,
            Slot::Raw(v) => v.len() as u32,
        };
    }
    n
}

/// number of filler entries so that exactly `pad_free` slots stay unused in
/// a directory of `cap_unit`-sized growth steps
fn fillers_for(used: u32, pad_free: Option<u16>, unit: u32) -> u32 {
    match pad_free {
        None => 0,
        Some(p) => {
            if unit > 256 {
                return 0;
            }
            let p = p as u32 % unit.max(1);
            let target = div_up((used + p).max(1), unit) * unit;
            target - used - p
        }
    }
}

/// (filler entries, clusters) of a directory with `used` slots. `extra` adds that many clusters
/// after the contents; with bit 7 set (and a `pad_free`) the extra clusters (low two bits) are
/// filled with filler entries as well, so that the directory spans several clusters *and* has
/// exactly `pad_free` unused slots, all of them in its last cluster.
fn dir_geometry(used: u32, pad_free: Option<u16>, extra: u8, epc: u32) -> (u32, u32) {
    if extra & 0x80 != 0 {
        let k = (extra & 3) as u32;
        if let Some(p) = pad_free {
            if epc * (k + 1) <= 256 {
                let p = p as u32 % epc.max(1);
                let target = (div_up((used + p).max(1), epc) + k) * epc;
                return (target - used - p, target / epc);
            }
        }
        let nfill = fillers_for(used, pad_free, epc);
        return (nfill, div_up((used + nfill).max(1), epc) + k);
    }
    let nfill = fillers_for(used, pad_free, epc);
    (nfill, div_up((used + nfill).max(1), epc) + extra as u32)
}

struct Ctx<'a> {
    lay: &'a Layout,
    alloc: Alloc,
    img: &'a mut Image,
    filler_no: u32,
}

fn min_xorshift(mut x: u64) -> u64 {
    x ^= x << 13;
    x ^= x >> 7;
    x ^= x << 17;
    x
}

impl<'a> Ctx<'a> {
    fn write_chain_bytes(&mut self, chain: &[u32], bytes: &[u8]) {
        let cb = self.lay.cluster_bytes() as usize;
        for (k, c) in chain.iter().enumerate() {
            let base = self.lay.cluster_block(*c);
            for s in 0..self.lay.spc {
                let off = k * cb + s as usize * 512;
                let mut b = [0u8; 512];
                if off < bytes.len() {
                    let n = (bytes.len() - off).min(512);
                    b[..n].copy_from_slice(&bytes[off..off + n]);
                }
                self.img.wr(base + s, &b);
            }
        }
    }

    /// Place a directory's children; returns (PNodes of live children, bytes of the directory)
    fn build_dir(
        &mut self,
        slots: &[Slot],
        self_cluster: u32,
        parent_cluster: u32,
        is_root: bool,
        fillers: u32,
        dir_times: &Times,
    ) -> (Vec<PNode>, Vec<u8>, Vec<(usize, usize)>) {
        // returns also for each child the byte offset of its entry within the dir (index into children, offset)
        let fat32 = self.lay.fat32;
        let mut bytes: Vec<u8> = Vec::new();
        let mut children = Vec::new();
        let mut locs = Vec::new();
        if !is_root {
            let mut dot = [b' '; 11];
            dot[0] = b'.';
            bytes.extend_from_slice(&short_entry(&dot, 0x10, self_cluster, 0, dir_times, fat32));
            let mut dd = [b' '; 11];
            dd[0] = b'.';
            dd[1] = b'.';
            bytes.extend_from_slice(&short_entry(&dd, 0x10, parent_cluster, 0, dir_times, fat32));
        }
        for s in slots {
            match s {
                Slot::Raw(v) => {
                    for r in v {
                        bytes.extend_from_slice(r);
                    }
                }
                Slot::File {
                    name,
                    attr,
                    size,
                    seed,
                    extra,
                    times,
                    pre,
                } => {
                    for r in pre {
                        bytes.extend_from_slice(r);
                    }
                    let cb = self.lay.cluster_bytes();
                    let need = if *size == 0 { 0 } else { div_up(*size, cb) + *extra as u32 };
                    let chain = self.alloc.chain(need);
                    let mut size = *size;
                    if (chain.len() as u32) < need {
                        // ran out of usable clusters: shrink the file
                        size = size.min(chain.len() as u32 * cb);
                    }
                    let data = content(*seed, size);
                    self.write_chain_bytes(&chain, &data);
                    let first = chain.first().copied().unwrap_or(0);
                    let raw = short_entry(name, *attr, first, size, times, fat32);
                    locs.push((children.len(), bytes.len()));
                    bytes.extend_from_slice(&raw);
                    children.push(PNode {
                        name: *name,
                        attr: *attr,
                        is_dir: false,
                        size,
                        seed: *seed,
                        chain,
                        children: vec![],
                        entry_loc: (0, 0),
                        times: *times,
                        raw,
                    });
                }
                Slot::Dir {
                    name,
                    attr,
                    children: kids,
                    extra,
                    pad_free,
                    times,
                    pre,
                } => {
                    for r in pre {
                        bytes.extend_from_slice(r);
                    }
                    let epc = self.lay.cluster_bytes() / 32;
                    let used = count_slots(kids) + 2;
                    let (nfill, ncl) = dir_geometry(used, *pad_free, *extra, epc);
                    let chain = self.alloc.chain(ncl);
                    if chain.is_empty() {
                        // no space at all: drop this directory
                        continue;
                    }
                    let first = chain[0];
                    let (pkids, dbytes, klocs) =
                        self.build_dir(kids, first, if is_root { 0 } else { self_cluster }, false, nfill, times);
                    let mut dbytes = dbytes;
                    let cap = chain.len() * self.lay.cluster_bytes() as usize;
                    if dbytes.len() > cap {
                        dbytes.truncate(cap);
                    }
                    self.write_chain_bytes(&chain, &dbytes);
                    let mut pkids = pkids;
                    let cb = self.lay.cluster_bytes() as usize;
                    for (ci, off) in klocs {
                        if off + 32 <= cap {
                            let cl = chain[off / cb];
                            let blk = self.lay.cluster_block(cl) + ((off % cb) / 512) as u32;
                            pkids[ci].entry_loc = (blk, (off % 512) as u32);
                        }
                    }
                    let raw = short_entry(name, *attr | 0x10, first, 0, times, fat32);
                    locs.push((children.len(), bytes.len()));
                    bytes.extend_from_slice(&raw);
                    children.push(PNode {
                        name: *name,
                        attr: *attr | 0x10,
                        is_dir: true,
                        size: 0,
                        seed: 0,
                        chain,
                        children: pkids,
                        entry_loc: (0, 0),
                        times: *times,
                        raw,
                    });
                }
            }
        }
        for _ in 0..fillers {
            self.filler_no += 1;
            let name = filler_name(self.filler_no);
            let t = Times {
                cdate: 0x2A21,
                ctime: 0,
                ctenths: 0,
                mdate: 0x2A21,
                mtime: 0,
                adate: 0x2A21,
            };
            let raw = short_entry(&name, 0x20, 0, 0, &t, fat32);
            locs.push((children.len(), bytes.len()));
            bytes.extend_from_slice(&raw);
            children.push(PNode {
                name,
                attr: 0x20,
                is_dir: false,
                size: 0,
                seed: 0,
                chain: vec![],
                children: vec![],
                entry_loc: (0, 0),
                times: t,
                raw,
            });
        }
        (children, bytes, locs)
    }
}

pub fn compute_layout(g: &VolGeom, part_start: u32, root_entries: u32) -> Layout {
    let spc = g.spc as u32;
    let es = if g.fat32 { 4 } else { 2 };
    let fat_sectors = div_up((g.clusters + 2) * es, 512) + g.fat_slack as u32;
    let root_sectors = if g.fat32 { 0 } else { div_up(root_entries * 32, 512) };
    let reserved = g.reserved as u32;
    let first_data = reserved + g.num_fats as u32 * fat_sectors + root_sectors;
    let total = first_data + g.clusters * spc + (g.tail_slack as u32 % spc);
    Layout {
        part_start,
        part_len: total,
        fat32: g.fat32,
        spc,
        reserved,
        num_fats: g.num_fats as u32,
        fat_sectors,
        root_entries: if g.fat32 { 0 } else { root_entries },
        root_sectors,
        first_data,
        clusters: g.clusters,
        root_cluster: 0,
        fsinfo_sector: if g.fat32 { g.fsinfo_sector as u32 } else { 0 },
        total,
    }
}

/// Root directory entries a FAT16 volume needs for this spec. The count need
/// not be a multiple of 16: the specification rounds the region up to whole
/// sectors (RootDirSectors = (RootEntCnt * 32 + BytsPerSec - 1) / BytsPerSec).
pub fn root_entries_for(v: &VolSpec) -> u32 {
    if v.geom.fat32 {
        return 0;
    }
    let used = count_slots(&v.root) + if v.geom.label { 1 } else { 0 };
    match v.root_pad_free {
        // with a count from the generator that is not a multiple of 16 the directory gets exactly
        // `used + p` slots: the last root sector then has padding behind the directory's end
        Some(p) => {
            let n = (used + (p as u32 % 16)).max(1);
            if v.geom.root_entries % 16 != 0 {
                n
            } else {
                div_up(n, 16) * 16
            }
        }
        None => {
            let want = v.geom.root_entries as u32;
            if want >= used.max(1) {
                want
            } else {
                div_up(used.max(1), 16) * 16
            }
        }
    }
}

pub fn usable_clusters(u: &Usable, lay: &Layout) -> Vec<u32> {
    let n = lay.clusters;
    let mut v: Vec<u32> = Vec::new();
    if u.all {
        // only materialise a prefix; the rest is implicitly free
        return v;
    }
    let eps = 512 / lay.entry_size();
    let lo = (u.low as u32).min(n);
    for c in 2..2 + lo {
        v.push(c);
    }
    // the middle run straddles a FAT sector boundary, or - on FAT32 volumes that are
    // large enough - the 16-bit boundary of cluster numbers (65536)
    let mid_start = if lay.fat32 && u.frag_seed % 2 == 1 && n > 65_600 + u.mid as u32 {
        65_536 - (u.mid as u32 / 2).min(65_000)
    } else {
        eps.saturating_sub(u.mid as u32 / 2).max(2 + lo)
    };
    for c in mid_start..(mid_start + u.mid as u32).min(n + 2) {
        v.push(c);
    }
    let hi = (u.high as u32).min(n);
    let hstart = (n + 2 - hi).max(v.last().map(|x| x + 1).unwrap_or(2));
    for c in hstart..n + 2 {
        v.push(c);
    }
    v.dedup();
    v
}

fn write_fat(img: &mut Image, lay: &Layout, fat: &HashMap<u32, u32>, all_usable: bool, hi_nib: bool, seed: u32) {
    let es = lay.entry_size();
    let eps = 512 / es;
    // which sectors need explicit contents
    let mut sectors: std::collections::BTreeSet<u32> = std::collections::BTreeSet::new();
    sectors.insert(0);
    sectors.insert((lay.clusters + 1) / eps); // holds the last valid entry
    sectors.insert((lay.clusters + 2) / eps); // may hold slack
    for c in fat.keys() {
        sectors.insert(c / eps);
    }
    let needed = div_up((lay.clusters + 2) * es, 512);
    for s in sectors {
        if s >= needed {
            continue;
        }
        let mut b = [0u8; 512];
        for k in 0..eps {
            let c = s * eps + k;
            let val: u32 = if c == 0 {
                if lay.fat32 {
                    0x0FFF_FFF8
                } else {
                    0xFFF8
                }
            } else if c == 1 {
                if lay.fat32 {
                    0x0FFF_FFFF
                } else {
                    0xFFFF
                }
            } else if c >= lay.clusters + 2 {
                0
            } else {
                match fat.get(&c) {
                    Some(v) => {
                        let mut v = *v;
                        if !lay.fat32 {
                            v &= 0xFFFF
                        } else if hi_nib && v != 0 {
                            let h = (min_xorshift(seed as u64 * 77 + c as u64 + 1) % 16) as u32;
                            v |= h << 28;
                        }
                        v
                    }
                    None => {
                        if all_usable {
                            0
                        } else if lay.fat32 {
                            0x0FFF_FFF7
                        } else {
                            0xFFF7
                        }
                    }
                }
            };
            let off = (k * es) as usize;
            if lay.fat32 {
                b[off..off + 4].copy_from_slice(&val.to_le_bytes());
            } else {
                b[off..off + 2].copy_from_slice(&(val as u16).to_le_bytes());
            }
        }
        for copy in 0..lay.num_fats {
            img.wr(lay.fat_start(copy) + s, &b);
        }
    }
}

fn boot_sector(g: &VolGeom, lay: &Layout, label: &[u8; 11]) -> [u8; 512] {
    let mut b = [0u8; 512];
    b[0] = 0xEB;
    b[1] = 0x3C;
    b[2] = 0x90;
    b[3..11].copy_from_slice(b"VERIFMKF");
    b[11..13].copy_from_slice(&512u16.to_le_bytes());
    b[13] = g.spc;
    b[14..16].copy_from_slice(&g.reserved.to_le_bytes());
    b[16] = g.num_fats;
    b[17..19].copy_from_slice(&(lay.root_entries as u16).to_le_bytes());
    let use16 = g.total16 && lay.total < 0x10000;
    if use16 {
        b[19..21].copy_from_slice(&(lay.total as u16).to_le_bytes());
    } else {
        b[32..36].copy_from_slice(&lay.total.to_le_bytes());
    }
    b[21] = 0xF8;
    if !g.fat32 {
        b[22..24].copy_from_slice(&(lay.fat_sectors as u16).to_le_bytes());
    }
    b[24..26].copy_from_slice(&63u16.to_le_bytes());
    b[26..28].copy_from_slice(&255u16.to_le_bytes());
    b[28..32].copy_from_slice(&lay.part_start.to_le_bytes());
    if g.fat32 {
        b[36..40].copy_from_slice(&lay.fat_sectors.to_le_bytes());
        b[40..42].copy_from_slice(&0u16.to_le_bytes());
        b[42..44].copy_from_slice(&0u16.to_le_bytes());
        b[44..48].copy_from_slice(&lay.root_cluster.to_le_bytes());
        b[48..50].copy_from_slice(&g.fsinfo_sector.to_le_bytes());
        let bk: u16 = if g.reserved >= 8 && g.fsinfo_sector != 6 { 6 } else { 0 };
        b[50..52].copy_from_slice(&bk.to_le_bytes());
        b[64] = 0x80;
        b[66] = 0x29;
        b[67..71].copy_from_slice(&0x1234_5678u32.to_le_bytes());
        b[71..82].copy_from_slice(label);
        b[82..90].copy_from_slice(b"FAT32   ");
    } else {
        b[36] = 0x80;
        b[38] = 0x29;
        b[39..43].copy_from_slice(&0x1234_5678u32.to_le_bytes());
        b[43..54].copy_from_slice(label);
        b[54..62].copy_from_slice(b"FAT16   ");
    }
    b[510] = 0x55;
    b[511] = 0xAA;
    b
}

pub fn fsinfo_sector(free: u32, next: u32) -> [u8; 512] {
    let mut b = [0u8; 512];
    b[0..4].copy_from_slice(&0x4161_5252u32.to_le_bytes());
    b[484..488].copy_from_slice(&0x6141_7272u32.to_le_bytes());
    b[488..492].copy_from_slice(&free.to_le_bytes());
    b[492..496].copy_from_slice(&next.to_le_bytes());
    b[508..512].copy_from_slice(&0xAA55_0000u32.to_le_bytes());
    b
}

/// Normalise a geometry so that it is a legal FAT volume.
pub fn normalise(g: &mut VolGeom) {
    if !g.spc.is_power_of_two() {
        g.spc = 1;
    }
    if g.num_fats == 0 || g.num_fats > 2 {
        g.num_fats = 2;
    }
    if g.fat32 {
        g.clusters = g.clusters.max(65525);
        if g.reserved < 3 {
            g.reserved = 3;
        }
        if g.fsinfo_sector == 0 || g.fsinfo_sector >= g.reserved {
            g.fsinfo_sector = 1;
        }
        if g.reserved >= 8 && (g.fsinfo_sector == 6 || g.fsinfo_sector == 7) {
            g.fsinfo_sector = 1;
        }
    } else {
        g.clusters = g.clusters.clamp(4085, 65524);
        if g.reserved == 0 {
            g.reserved = 1;
        }
        if g.fat_slack > 16 {
            g.fat_slack = 16; // fat_size16 must fit
        }
    }
    // total block count must fit u32
    let approx = g.clusters as u64 * g.spc as u64 + 70_000;
    if approx > 0xFFFF_0000 {
        g.spc = 1;
    }
}

pub const VALID_PART_TYPES: [u8; 5] = [0x04, 0x06, 0x0E, 0x0B, 0x0C];

/// Short names on a FAT volume are upper case; specs written before the reference grammar
/// upper-cased the ISO-8859-1 letters (older corpus files) are brought into that form.
fn upper_names(slots: &mut [Slot]) {
    for s in slots.iter_mut() {
        match s {
            Slot::File { name, .. } => {
                for b in name.iter_mut() {
                    *b = crate::names::latin1_upper(*b);
                }
            }
            Slot::Dir { name, children, .. } => {
                for b in name.iter_mut() {
                    *b = crate::names::latin1_upper(*b);
                }
                upper_names(children);
            }
            Slot::Raw(_) => {}
        }
    }
}

/// The spec with every short name upper-cased (see `upper_names`).
pub fn with_upper_names(spec: &DiskSpec) -> DiskSpec {
    let mut spec = spec.clone();
    for v in spec.vols.iter_mut().flatten() {
        upper_names(&mut v.root);
    }
    spec
}

pub fn mkfs(spec: &DiskSpec) -> (Image, Vec<PVol>) {
    // first pass: layouts
    let mut cur: u32 = 1;
    let mut lays: Vec<Option<(Layout, VolSpec)>> = Vec::new();
    for v in spec.vols.iter().take(4) {
        match v {
            None => lays.push(None),
            Some(v) => {
                let mut v = v.clone();
                normalise(&mut v.geom);
                cur += v.geom.gap_before as u32;
                let re = root_entries_for(&v);
                let lay = compute_layout(&v.geom, cur, re);
                cur += lay.part_len;
                lays.push(Some((lay, v)));
            }
        }
    }
    let num_blocks = cur + 8 + spec.guard as u32;
    let mut img = Image::new(num_blocks);
    img.regions.push(Region {
        start: 1,
        end: num_blocks,
        fill: Fill::Foreign(0x5B),
    });
    let mut mbr = [0u8; 512];
    for (i, x) in mbr.iter_mut().enumerate().take(440) {
        *x = 0x90u8.wrapping_add(i as u8);
    }
    let mut pvols = Vec::new();
    for (slot, lv) in lays.iter().enumerate() {
        let Some((lay, v)) = lv else { continue };
        let mut lay = lay.clone();
        let g = &v.geom;
        // partition entry
        let pe = 446 + slot * 16;
        mbr[pe] = if slot == 0 { 0x80 } else { 0x00 };
        mbr[pe + 1..pe + 4].copy_from_slice(&[0xFE, 0xFF, 0xFF]);
        mbr[pe + 4] = g.part_type;
        mbr[pe + 5..pe + 8].copy_from_slice(&[0xFE, 0xFF, 0xFF]);
        mbr[pe + 8..pe + 12].copy_from_slice(&lay.part_start.to_le_bytes());
        mbr[pe + 12..pe + 16].copy_from_slice(&lay.part_len.to_le_bytes());
        // regions
        img.regions.push(Region {
            start: lay.part_start,
            end: lay.part_start + lay.part_len,
            fill: Fill::Zero,
        });
        let needed = div_up((lay.clusters + 2) * lay.entry_size(), 512);
        if !v.usable.all {
            for copy in 0..lay.num_fats {
                img.regions.push(Region {
                    start: lay.fat_start(copy),
                    end: lay.fat_start(copy) + needed,
                    fill: if lay.fat32 { Fill::Fat32Bad } else { Fill::Fat16Bad },
                });
            }
        }
        if v.stale {
            img.regions.push(Region {
                start: lay.data_start(),
                end: lay.data_end(),
                fill: Fill::Stale { clusters: lay.clusters },
            });
        }
        // reserved sectors other than boot/fsinfo get a recognisable pattern (as a
        // background region, so that thousands of reserved sectors cost nothing)
        if lay.reserved > 1 {
            img.regions.push(Region {
                start: lay.part_start + 1,
                end: lay.part_start + lay.reserved,
                fill: Fill::Foreign(0xC3),
            });
        }
        // allocation order
        let mut order = usable_clusters(&v.usable, &lay);
        if v.usable.all {
            // materialise enough low clusters for the tree
            let want = 4096.min(lay.clusters);
            order = (2..2 + want).collect();
        }
        if v.usable.fragmented {
            // Fisher-Yates with a seeded generator
            let mut s = v.usable.frag_seed as u64 * 2 + 1;
            for i in (1..order.len()).rev() {
                s = min_xorshift(s);
                let j = (s % (i as u64 + 1)) as usize;
                order.swap(i, j);
            }
        }
        let alloc = Alloc {
            order,
            pos: 0,
            fat: HashMap::new(),
            exhausted: false,
            limit: lay.clusters,
            scan: 2,
        };
        let mut ctx = Ctx {
            lay: &lay.clone(),
            alloc,
            img: &mut img,
            filler_no: 0,
        };
        let root_times = Times::default();
        let mut root_slots = v.root.clone();
        if g.label {
            let mut e = [0u8; 32];
            e[0..11].copy_from_slice(LABEL_NAME);
            e[11] = 0x08;
            e[22..24].copy_from_slice(&0x6000u16.to_le_bytes());
            e[24..26].copy_from_slice(&0x2A21u16.to_le_bytes());
            root_slots.insert(0, Slot::Raw(vec![e]));
        }
        let used = count_slots(&root_slots);
        let (root_children, root_bytes, root_chain, locs);
        if lay.fat32 {
            let epc = lay.cluster_bytes() / 32;
            let (nfill, ncl) = dir_geometry(used, v.root_pad_free, v.root_extra, epc);
            let chain_early = if !g.root_late { ctx.alloc.chain(ncl) } else { vec![] };
            let (kids, bytes, l) = if g.root_late {
                // children first, then the root chain; the root's own cluster is
                // only needed for nothing (".." of children is 0)
                ctx.build_dir(&root_slots, 0, 0, true, nfill, &root_times)
            } else {
                ctx.build_dir(&root_slots, chain_early[0], 0, true, nfill, &root_times)
            };
            // a late root is allocated after everything else (so it starts at an arbitrary cluster)
            let chain = if g.root_late { ctx.alloc.chain(ncl) } else { chain_early };
            assert!(!chain.is_empty(), "no cluster for FAT32 root");
            root_children = kids;
            root_bytes = bytes;
            root_chain = chain;
            locs = l;
            lay.root_cluster = root_chain[0];
            let mut rb = root_bytes.clone();
            let cap = root_chain.len() * lay.cluster_bytes() as usize;
            rb.truncate(cap);
            ctx.write_chain_bytes(&root_chain, &rb);
        } else {
            let cap_entries = lay.root_entries;
            let nfill = match v.root_pad_free {
                Some(p) => cap_entries.saturating_sub(used + (p as u32 % 16)),
                None => 0,
            };
            let (kids, bytes, l) = ctx.build_dir(&root_slots, 0, 0, true, nfill, &root_times);
            root_children = kids;
            root_bytes = bytes;
            root_chain = vec![];
            locs = l;
            let start = lay.root16_start();
            for s in 0..lay.root_sectors {
                let mut b = [0u8; 512];
                let off = s as usize * 512;
                if off < root_bytes.len() {
                    let n = (root_bytes.len() - off).min(512);
                    b[..n].copy_from_slice(&root_bytes[off..off + n]);
                }
                // slots of the last sector that lie behind the directory's last slot are not part
                // of the directory; on a "stale" volume they hold what looks like live entries
                if v.stale && v.usable.frag_seed % 2 == 0 {
                    for k in 0..16u32 {
                        let slot_no = s * 16 + k;
                        if slot_no >= lay.root_entries {
                            let o = k as usize * 32;
                            let name = format!("STALE{:03}$$$", slot_no % 1000);
                            b[o..o + 11].copy_from_slice(name.as_bytes());
                            b[o + 11] = 0x20;
                            b[o + 26] = 3;
                            b[o + 28] = 7;
                        }
                    }
                }
                ctx.img.wr(start + s, &b);
            }
        }
        let mut root_children = root_children;
        let cb = lay.cluster_bytes() as usize;
        for (ci, off) in locs {
            if lay.fat32 {
                if off / cb < root_chain.len() {
                    let cl = root_chain[off / cb];
                    root_children[ci].entry_loc =
                        (lay.cluster_block(cl) + ((off % cb) / 512) as u32, (off % 512) as u32);
                }
            } else {
                root_children[ci].entry_loc = (lay.root16_start() + (off / 512) as u32, (off % 512) as u32);
            }
        }
        // free clusters
        let mut fatmap = std::mem::take(&mut ctx.alloc.fat);
        let universe: Vec<u32> = ctx.alloc.order.clone();
        let mut free: Vec<u32> = universe[ctx.alloc.pos.min(universe.len())..].to_vec();
        if v.usable.all {
            // everything beyond the materialised prefix is free as well
            free.sort();
        } else {
            if let Some(n) = v.usable.free_after {
                let n = n as usize;
                if free.len() > n {
                    // keep the last n of the allocation order (biased towards the end of the volume
                    // when not fragmented)
                    let drop = free.len() - n;
                    let keep_from_end = v.usable.frag_seed % 2 == 0;
                    if keep_from_end {
                        free.drain(0..drop);
                    } else {
                        free.truncate(n);
                    }
                }
            }
            for c in &free {
                fatmap.insert(*c, 0);
            }
            free.sort();
        }
        drop(ctx);
        write_fat(&mut img, &lay, &fatmap, v.usable.all, g.hi_nibbles && lay.fat32, v.usable.frag_seed);
        // boot sector(s)
        // without a label the boot-sector field is blank, which makes the crate look for a
        // label entry in the root directory instead
        let label: [u8; 11] = if g.label { *LABEL_NAME } else { *b"           " };
        let bs = boot_sector(g, &lay, &label);
        img.wr(lay.part_start, &bs);
        if lay.fat32 {
            if g.reserved >= 8 && g.fsinfo_sector != 6 {
                img.wr(lay.part_start + 6, &bs);
            }
            let nfree = if v.usable.all {
                lay.clusters - fatmap.values().filter(|x| **x != 0).count() as u32
            } else {
                free.len() as u32
            };
            let next = free.first().copied().unwrap_or(0xFFFF_FFFF);
            let fi = match &g.fsinfo {
                FsInfoKind::Correct => fsinfo_sector(nfree, if v.usable.all { 0xFFFF_FFFF } else { next }),
                FsInfoKind::Unknown => fsinfo_sector(0xFFFF_FFFF, 0xFFFF_FFFF),
                FsInfoKind::Stale { count, next } => fsinfo_sector(*count, *next),
            };
            img.wr(lay.part_start + lay.fsinfo_sector, &fi);
        }
        let root = PNode {
            name: [b' '; 11],
            attr: 0x10,
            is_dir: true,
            size: 0,
            seed: 0,
            chain: root_chain,
            children: root_children,
            entry_loc: (0, 0),
            times: root_times,
            raw: [0u8; 32],
        };
        pvols.push(PVol {
            layout: lay,
            root,
            free,
            slot,
        });
    }
    mbr[510] = 0x55;
    mbr[511] = 0xAA;
    img.wr(0, &mbr);
    let _ = img.rd(0);
    (img, pvols)
}
