//! Simulated SD card on an SPI bus, written from the SD Physical Layer
//! Simplified Specification (SPI mode). It is at once a memory array (C12), a
//! protocol monitor (C14) and an adversary (C13). Nothing here comes from the
//! crate's proto.rs: own command table, CRCs and CSD encoders.

use embedded_hal::spi::{ErrorKind, ErrorType, Operation, SpiDevice};
use serde::{Deserialize, Serialize};
use std::cell::RefCell;
use std::collections::{HashMap, VecDeque};
use std::rc::Rc;

#[derive(Clone, Copy, Debug, PartialEq, Eq, Serialize, Deserialize)]
pub enum Kind {
    V1Sc,
    V2Sc,
    V2Hc,
}

#[derive(Clone, Debug, Serialize, Deserialize, PartialEq)]
pub struct Timing {
    pub ncr: u8,
    pub token_delay: u16,
    pub busy_write: u16,
    pub busy_stop: u16,
    /// ACMD41 answers "still initialising" this many times after power-up (counted across resets)
    pub init_polls: u16,
    /// number of CMD0 frames that go unanswered at power-up
    pub cmd0_ignored: u8,
    /// further status bits in the top OCR byte (UHS-II 0x20, over-2TB 0x08, S18A 0x01)
    #[serde(default)]
    pub ocr_extra: u8,
    /// the host does NOT grant extra identification attempts for the ignored CMD0 frames: with
    /// more ignored frames than attempts the first use legitimately fails with "card not found"
    #[serde(default)]
    pub sluggish: bool,
    /// busy (programming) time after the stop token of a multi-block write, in polls; like the busy
    /// time after any other data block it may approach the driver's write budget (50,000)
    #[serde(default)]
    pub busy_stop_write: u16,
    /// the busy signal after the stop token starts one byte late (the card drives 0xFF for one
    /// byte first, as in the specification's timing diagram of the multiple block write)
    #[serde(default)]
    pub stop_gap: bool,
    /// the card keeps the error bits of its status register until the host reads them with CMD13
    /// (clear condition "C" of the card-status table), and raises OUT_OF_RANGE when a multi-block
    /// read has delivered the last block of the card and reads ahead (Physical Layer
    /// Specification 4.3.3: "the host should ignore OUT_OF_RANGE error that may occur even the
    /// sequence is correct") or when a command names a block beyond the card
    #[serde(default)]
    pub sticky_status: bool,
    /// the card makes use of N_WR (minimum 1 byte, timing table of the SPI chapter): it does not
    /// look for a data token in the byte slot that directly follows its response to the write
    /// command, nor in the one that directly follows the end of its busy signal
    #[serde(default)]
    pub nwr_gap: bool,
    /// the card makes use of N_RC (minimum 1 byte, same table): a command frame that starts in
    /// the byte slot directly after the last byte of its previous response is not seen
    #[serde(default)]
    pub nrc_gap: bool,
    /// a data block of a multi-block write that would land behind the last block is answered
    /// "data accepted" like any other (the data response token reports the CRC and a programming
    /// error, nothing else); nothing is stored, and OUT_OF_RANGE - an error "detected during
    /// execution" - shows in the card status only
    #[serde(default)]
    pub oor_status_only: bool,
}

#[derive(Clone, Debug, Serialize, Deserialize, PartialEq)]
pub struct Capacity {
    /// v1 layout: READ_BL_LEN 9..=11
    pub read_bl_len: u8,
    pub c_size_mult: u8,
    /// v1: 12 bit; v2: 22 bit
    pub c_size: u32,
}

#[derive(Clone, Debug, Serialize, Deserialize, PartialEq)]
pub enum Fault {
    /// flip one bit of the nth data block sent to the host (0..4096 payload, 4096..4112 CRC)
    FlipBit { nth_read: u16, bit: u16 },
    /// xor a burst pattern (<= 16 bits, msb set) starting at `bit`
    Burst { nth_read: u16, bit: u16, pattern: u16 },
    /// wrong start token for the nth data block sent
    WrongToken { nth_read: u16, token: u8 },
    /// data response other than "accepted" for the nth block received; the block is not stored
    RejectWrite { nth_write: u16, code: u8 },
    /// CMD13 after the nth single-block write reports an error (r1, status)
    WriteStatus { nth_write: u16, r1: u8, status: u8 },
    /// from SPI byte `at` on the card answers 0xFF for ever
    DeadFrom { at: u32 },
    /// from SPI byte `at` on the card holds the line low for ever
    BusyFrom { at: u32 },
    /// from SPI byte `at` on the card answers pseudo-random bytes
    GarbageFrom { at: u32, seed: u32 },
    /// the nth SPI transaction fails at the bus level
    SpiError { nth_transaction: u32 },
    /// a version 2 card whose answer to CMD8 never carries the check pattern
    WrongCmd8Echo { echo: u8 },
    /// from SPI byte `at` on the data line is stuck at one value (neither idle 0xFF nor busy 0x00)
    StuckFrom { at: u32, value: u8 },
}

#[derive(Debug)]
pub struct SpiBudgetExceeded(pub u64);

#[derive(Debug, Clone, Copy, PartialEq, Eq)]
pub struct SpiErr;
impl embedded_hal::spi::Error for SpiErr {
    fn kind(&self) -> ErrorKind {
        ErrorKind::Other
    }
}

pub fn ref_crc7(data: &[u8]) -> u8 {
    let mut rem: u16 = 0;
    let total = data.len() * 8 + 7;
    for i in 0..total {
        let bit = if i < data.len() * 8 { (data[i / 8] >> (7 - i % 8)) & 1 } else { 0 };
        rem = (rem << 1) | bit as u16;
        if rem & 0x80 != 0 {
            rem ^= 0x89;
        }
    }
    ((rem as u8) << 1) | 1
}

pub fn ref_crc16(data: &[u8]) -> u16 {
    let mut crc: u16 = 0;
    for &b in data {
        crc ^= (b as u16) << 8;
        for _ in 0..8 {
            crc = if crc & 0x8000 != 0 { (crc << 1) ^ 0x1021 } else { crc << 1 };
        }
    }
    crc
}

fn set_bits(reg: &mut [u8; 16], hi: u32, lo: u32, value: u32) {
    for b in lo..=hi {
        let v = (value >> (b - lo)) & 1;
        let byte = (127 - b) / 8;
        let bit = b % 8;
        if v != 0 {
            reg[byte as usize] |= 1 << bit;
        } else {
            reg[byte as usize] &= !(1 << bit);
        }
    }
}

pub fn build_csd(v2_layout: bool, cap: &Capacity) -> [u8; 16] {
    let mut r = [0u8; 16];
    set_bits(&mut r, 127, 126, if v2_layout { 1 } else { 0 });
    set_bits(&mut r, 119, 112, 0x0E); // TAAC
    set_bits(&mut r, 103, 96, 0x32); // TRAN_SPEED
    set_bits(&mut r, 95, 84, 0x5B5); // CCC
    if v2_layout {
        set_bits(&mut r, 83, 80, 9);
        set_bits(&mut r, 69, 48, cap.c_size & 0x3F_FFFF);
        set_bits(&mut r, 46, 46, 1);
        set_bits(&mut r, 45, 39, 0x7F);
        set_bits(&mut r, 25, 22, 9);
    } else {
        set_bits(&mut r, 83, 80, cap.read_bl_len as u32);
        set_bits(&mut r, 79, 79, 1);
        set_bits(&mut r, 73, 62, cap.c_size & 0xFFF);
        set_bits(&mut r, 49, 47, cap.c_size_mult as u32 & 7);
        set_bits(&mut r, 46, 46, 1);
        set_bits(&mut r, 25, 22, cap.read_bl_len as u32);
    }
    r[15] = ref_crc7(&r[0..15]);
    r
}

/// capacity in 512-byte blocks per the specification, for the layout encoded in the register
pub fn capacity_blocks(v2_layout: bool, cap: &Capacity) -> u64 {
    if v2_layout {
        (cap.c_size as u64 & 0x3F_FFFF) + 1 << 10
    } else {
        let mult = 1u64 << (cap.c_size_mult as u64 + 2);
        let blocknr = ((cap.c_size as u64 & 0xFFF) + 1) * mult;
        let bytes = blocknr << cap.read_bl_len;
        bytes / 512
    }
}

#[derive(Clone, Copy, Debug, PartialEq)]
enum Rx {
    Command,
    DataToken { multi: bool },
    Data { multi: bool },
}

pub struct CardInner {
    pub kind: Kind,
    pub timing: Timing,
    pub cap: Capacity,
    pub csd: [u8; 16],
    pub blocks: u64,
    pub mem: HashMap<u32, Box<[u8; 512]>>,
    pub bg_seed: u32,
    // protocol state
    rx: Rx,
    frame: Vec<u8>,
    data_buf: Vec<u8>,
    /// bytes the card will drive; bit 8 marks a byte that carries an injected corruption
    out: VecDeque<u16>,
    busy: u32,
    pub idle: bool,
    pub crc_on: bool,
    app_cmd: bool,
    /// 0 power-on, 1 after CMD0, 2 after CMD8, 3 ready (ACMD41 done), 4 after CMD58
    pub init_state: u8,
    init_left: u16,
    cmd0_left: u8,
    init_left_boot: u16,
    streaming_read: Option<u32>,
    write_addr: u32,
    last_write_failed: bool,
    /// error bits of the status register (second byte of R2) waiting to be read
    sticky: u8,
    /// the next byte slot in which the card neither answers nor signals busy is its N_WR slot
    nwr_pending: bool,
    /// the last byte in `out` belongs to a command response (not to a data block)
    resp_tail: bool,
    /// the previous byte slot carried the last byte of a response
    nrc_slot: bool,
    nrc_swallow: u8,
    // monitor
    pub viol: Vec<String>,
    pub cmd_log: Vec<(u8, u32)>,
    pub monitor_on: bool,
    // accounting
    pub bytes_total: u64,
    pub bytes_this_call: u64,
    pub byte_budget: u64,
    pub transactions: u32,
    pub delays: u64,
    pub reads_sent: u16,
    pub writes_received: u16,
    pub single_writes_done: u16,
    pub faults: Vec<Fault>,
    pub fault_fired: bool,
    garbage: Option<u32>,
    stuck: Option<u8>,
    frame_busy: bool,
    dead: bool,
    stuck_busy: bool,
    pub multi_writes_seen: u32,
    pub inits_completed: u32,
    /// the injected SPI error hit the one transfer whose result the driver ignores by design
    pub spi_err_in_ignored_trailer: bool,
    /// one-byte transfers seen on an idle line since identification completed (the first one is the
    /// trailing byte of `acquire`, the next ones are the not-busy polls of the following command)
    post_init_idle_reads: u32,
}

#[derive(Clone)]
pub struct SimCard(pub Rc<RefCell<CardInner>>);

pub fn bg_block(seed: u32, block: u32) -> [u8; 512] {
    // seeds 0 and 1: a blank card (all zeros) and an erased card (all ones)
    if seed == 0 {
        return [0u8; 512];
    }
    if seed == 1 {
        return [0xFFu8; 512];
    }
    let mut b = [0u8; 512];
    let mut x = (seed as u64) << 32 | block as u64 | 1;
    for c in b.chunks_mut(8) {
        x ^= x << 13;
        x ^= x >> 7;
        x ^= x << 17;
        c.copy_from_slice(&x.to_le_bytes());
    }
    b
}

impl SimCard {
    pub fn new(kind: Kind, timing: Timing, cap: Capacity, bg_seed: u32, faults: Vec<Fault>) -> SimCard {
        let v2_layout = kind == Kind::V2Hc;
        let csd = build_csd(v2_layout, &cap);
        let blocks = capacity_blocks(v2_layout, &cap);
        SimCard(Rc::new(RefCell::new(CardInner {
            kind,
            cmd0_left: timing.cmd0_ignored,
            init_left_boot: timing.init_polls,
            timing,
            cap,
            csd,
            blocks,
            mem: HashMap::new(),
            bg_seed,
            rx: Rx::Command,
            frame: Vec::new(),
            data_buf: Vec::new(),
            out: VecDeque::new(),
            busy: 0,
            idle: false,
            crc_on: false,
            app_cmd: false,
            init_state: 0,
            init_left: 0,
            streaming_read: None,
            write_addr: 0,
            last_write_failed: false,
            sticky: 0,
            nwr_pending: false,
            resp_tail: false,
            nrc_slot: false,
            nrc_swallow: 0,
            viol: Vec::new(),
            cmd_log: Vec::new(),
            monitor_on: true,
            bytes_total: 0,
            bytes_this_call: 0,
            // every wait loop of the driver is bounded by 10,000 / 50,000 polls and the
            // identification retries by `acquire_retries`; the generated card families need
            // at most ~1e6 bytes per call, so this leaves a 20x margin
            byte_budget: 20_000_000,
            transactions: 0,
            delays: 0,
            reads_sent: 0,
            writes_received: 0,
            single_writes_done: 0,
            faults,
            fault_fired: false,
            garbage: None,
            stuck: None,
            frame_busy: false,
            dead: false,
            stuck_busy: false,
            multi_writes_seen: 0,
            inits_completed: 0,
            spi_err_in_ignored_trailer: false,
            post_init_idle_reads: 0,
        })))
    }
    pub fn begin_call(&self) {
        self.0.borrow_mut().bytes_this_call = 0;
    }
    /// power-cycle: protocol state back to power-on, memory kept, faults cleared
    pub fn power_cycle(&self) {
        let mut c = self.0.borrow_mut();
        c.rx = Rx::Command;
        c.frame.clear();
        c.data_buf.clear();
        c.out.clear();
        c.busy = 0;
        c.idle = false;
        c.crc_on = false;
        c.app_cmd = false;
        c.init_state = 0;
        c.streaming_read = None;
        c.faults.clear();
        c.garbage = None;
        c.stuck = None;
        c.dead = false;
        c.stuck_busy = false;
        c.cmd0_left = 0;
        c.init_left_boot = c.timing.init_polls.min(3);
    }
    pub fn read_mem(&self, block: u32) -> [u8; 512] {
        let c = self.0.borrow();
        c.mem.get(&block).map(|b| **b).unwrap_or_else(|| bg_block(c.bg_seed, block))
    }
}

impl CardInner {
    fn mem_rd(&self, block: u32) -> [u8; 512] {
        self.mem.get(&block).map(|b| **b).unwrap_or_else(|| bg_block(self.bg_seed, block))
    }

    fn v(&mut self, s: String) {
        if self.monitor_on && self.viol.len() < 16 {
            self.viol.push(s);
        }
    }

    fn r1(&self) -> u8 {
        if self.idle {
            0x01
        } else {
            0x00
        }
    }

    fn respond(&mut self, bytes: &[u8]) {
        for _ in 0..self.timing.ncr {
            self.out.push_back(0xFF);
        }
        for b in bytes {
            self.out.push_back(*b as u16);
        }
        self.resp_tail = true;
    }

    fn addr_to_block(&self, arg: u32) -> Result<u32, u8> {
        let blk = if self.kind == Kind::V2Hc {
            arg as u64
        } else {
            if arg % 512 != 0 {
                return Err(0x20); // address error
            }
            (arg / 512) as u64
        };
        if blk >= self.blocks {
            return Err(0x40); // parameter error
        }
        Ok(blk as u32)
    }

    fn queue_data_block(&mut self, payload: &[u8]) {
        self.resp_tail = false;
        let n = self.reads_sent;
        self.reads_sent += 1;
        let mut token: u16 = 0xFE;
        let crc = ref_crc16(payload);
        let mut bytes: Vec<u16> = payload.iter().map(|b| *b as u16).collect();
        bytes.push(crc >> 8);
        bytes.push(crc & 0xFF);
        for f in self.faults.clone() {
            match f {
                Fault::FlipBit { nth_read, bit } if nth_read == n => {
                    let bit = bit as usize % (bytes.len() * 8);
                    bytes[bit / 8] ^= 0x80 >> (bit % 8);
                    bytes[bit / 8] |= 0x100;
                }
                Fault::Burst { nth_read, bit, pattern } if nth_read == n => {
                    let pattern = pattern | 0x8000;
                    let start = bit as usize % (bytes.len() * 8 - 16);
                    for k in 0..16 {
                        if pattern & (0x8000 >> k) != 0 {
                            let p = start + k;
                            bytes[p / 8] ^= 0x80 >> (p % 8);
                            bytes[p / 8] |= 0x100;
                        }
                    }
                }
                Fault::WrongToken { nth_read, token: t } if nth_read == n => {
                    token = t as u16 | 0x100;
                }
                _ => {}
            }
        }
        for _ in 0..self.timing.token_delay {
            self.out.push_back(0xFF);
        }
        self.out.push_back(token);
        self.out.extend(bytes);
    }

    fn command(&mut self, f: [u8; 6]) {
        let cmd = f[0] & 0x3F;
        let arg = u32::from_be_bytes([f[1], f[2], f[3], f[4]]);
        let acmd = self.app_cmd;
        self.cmd_log.push((if acmd { 0x80 | cmd } else { cmd }, arg));
        // ---- monitor: frame well-formedness
        if f[0] & 0xC0 != 0x40 {
            self.v(format!("CMD{}: start/transmission bits are {:#04x}", cmd, f[0] & 0xC0));
        }
        if f[5] & 1 != 1 {
            self.v(format!("CMD{}: end bit is not set", cmd));
        }
        let want = ref_crc7(&f[0..5]);
        let crc_ok = f[5] == want;
        if !crc_ok {
            self.v(format!("CMD{} arg {:#010x}: CRC-7 byte is {:#04x}, correct value {:#04x}", cmd, arg, f[5], want));
        }
        // ---- monitor: ordering
        let is_data_cmd = !acmd && matches!(cmd, 9 | 13 | 17 | 18 | 24 | 25);
        if is_data_cmd {
            let need = if self.kind == Kind::V1Sc { 3 } else { 4 };
            if self.init_state < need {
                self.v(format!("CMD{} sent before the identification sequence completed (state {})", cmd, self.init_state));
            }
        }
        if acmd && !matches!(cmd, 41 | 23) {
            // any command directly after CMD55 is treated as an application command
        }
        if !acmd && matches!(cmd, 41 | 23) {
            self.v(format!("ACMD{} not directly preceded by CMD55", cmd));
        }
        if let Some(_) = self.streaming_read {
            if cmd != 12 {
                self.v(format!("CMD{} sent while a multi-block read was still streaming (no CMD12)", cmd));
            }
        }
        self.app_cmd = false;
        self.out.clear();
        // ---- the card proper
        if (self.crc_on || cmd == 0 || cmd == 8) && !crc_ok {
            let r = self.r1() | 0x08;
            self.respond(&[r]);
            return;
        }
        if cmd == 0 {
            if self.cmd0_left > 0 {
                self.cmd0_left -= 1;
                return; // no answer at all
            }
            self.idle = true;
            self.crc_on = false;
            self.init_state = 1;
            self.streaming_read = None;
            self.rx = Rx::Command;
            self.busy = 0;
            self.respond(&[0x01]);
            return;
        }
        if self.init_state == 0 {
            // not even reset: a real card in SD mode would not answer
            self.v(format!("CMD{} sent before CMD0", cmd));
            return;
        }
        match (acmd, cmd) {
            (false, 59) => {
                self.crc_on = arg & 1 == 1;
                let r = self.r1();
                self.respond(&[r]);
            }
            (false, 8) => {
                if self.init_state != 1 {
                    self.v(format!("CMD8 sent in state {}", self.init_state));
                }
                self.init_state = self.init_state.max(2);
                if self.kind == Kind::V1Sc {
                    let r = self.r1() | 0x04;
                    self.respond(&[r]);
                } else {
                    let r = self.r1();
                    let mut echo = arg as u8;
                    for f in self.faults.clone() {
                        if let Fault::WrongCmd8Echo { echo: e } = f {
                            echo = if e == 0xAA { 0x55 } else { e };
                            self.fault_fired = true;
                        }
                    }
                    self.respond(&[r, 0, 0, (arg >> 8) as u8 & 0x0F, echo]);
                }
            }
            (false, 55) => {
                self.app_cmd = true;
                let r = self.r1();
                self.respond(&[r]);
            }
            (true, 41) => {
                if self.init_state < 2 {
                    self.v("ACMD41 sent before CMD8".to_string());
                }
                if self.kind != Kind::V1Sc && arg & 0x4000_0000 == 0 {
                    self.v("ACMD41 without HCS to a version 2 card".to_string());
                }
                if self.init_left_boot > 0 {
                    self.init_left_boot -= 1;
                    self.respond(&[0x01]);
                } else {
                    self.idle = false;
                    if self.init_state < 3 {
                        self.init_state = 3;
                        if self.kind == Kind::V1Sc {
                            self.inits_completed += 1;
                            self.post_init_idle_reads = 0;
                        }
                    }
                    self.respond(&[0x00]);
                }
            }
            (false, 58) => {
                let mut ocr: u32 = 0x00FF_8000;
                if !self.idle {
                    ocr |= 0x8000_0000;
                    if self.kind == Kind::V2Hc {
                        ocr |= 0x4000_0000;
                        ocr |= ((self.timing.ocr_extra & 0x29) as u32) << 24;
                    }
                    if self.init_state == 3 {
                        self.init_state = 4;
                        self.inits_completed += 1;
                            self.post_init_idle_reads = 0;
                    }
                }
                let r = self.r1();
                let o = ocr.to_be_bytes();
                self.respond(&[r, o[0], o[1], o[2], o[3]]);
            }
            (false, 9) => {
                self.respond(&[0x00]);
                let csd = self.csd;
                self.queue_data_block(&csd);
            }
            (false, 13) => {
                let mut r1 = 0u8;
                let mut st = 0u8;
                let n = self.single_writes_done;
                for f in self.faults.clone() {
                    if let Fault::WriteStatus { nth_write, r1: a, status: b } = f {
                        if nth_write + 1 == n {
                            r1 = a & 0x7F;
                            st = b;
                            self.fault_fired = true;
                        }
                    }
                }
                if self.last_write_failed {
                    st |= 0x04;
                }
                st |= self.sticky;
                self.sticky = 0;
                self.respond(&[r1, st]);
            }
            (false, 17) => match self.addr_to_block(arg) {
                Ok(b) => {
                    self.respond(&[0x00]);
                    let d = self.mem_rd(b);
                    self.queue_data_block(&d);
                }
                Err(e) => {
                    if self.timing.sticky_status && e == 0x40 {
                        self.sticky |= 0x80;
                    }
                    self.respond(&[e])
                }
            },
            (false, 18) => match self.addr_to_block(arg) {
                Ok(b) => {
                    self.respond(&[0x00]);
                    self.streaming_read = Some(b);
                    let d = self.mem_rd(b);
                    self.queue_data_block(&d);
                }
                Err(e) => {
                    if self.timing.sticky_status && e == 0x40 {
                        self.sticky |= 0x80;
                    }
                    self.respond(&[e])
                }
            },
            (false, 12) => {
                if self.streaming_read.is_none() {
                    self.v("CMD12 sent although no multi-block read is in progress".to_string());
                }
                self.streaming_read = None;
                // stuff byte, then R1, then busy
                self.out.push_back(0xFF);
                self.respond(&[0x00]);
                self.busy = self.timing.busy_stop as u32;
            }
            (false, 24) | (false, 25) => match self.addr_to_block(arg) {
                Ok(b) => {
                    self.write_addr = b;
                    self.respond(&[0x00]);
                    self.rx = Rx::DataToken { multi: cmd == 25 };
                    self.nwr_pending = self.timing.nwr_gap;
                    if cmd == 25 {
                        self.multi_writes_seen += 1;
                    }
                }
                Err(e) => {
                    if self.timing.sticky_status && e == 0x40 {
                        self.sticky |= 0x80;
                    }
                    self.respond(&[e])
                }
            },
            (true, 23) => {
                self.respond(&[0x00]);
            }
            _ => {
                let r = self.r1() | 0x04;
                self.respond(&[r]);
            }
        }
    }

    fn data_block_received(&mut self, multi: bool) {
        let n = self.writes_received;
        self.writes_received += 1;
        let payload: Vec<u8> = self.data_buf[..512].to_vec();
        let crc = u16::from_be_bytes([self.data_buf[512], self.data_buf[513]]);
        let want = ref_crc16(&payload);
        let mut code = 0x05u8;
        if self.crc_on && crc != want {
            self.v(format!("data block for block {}: CRC-16 {:#06x}, correct value {:#06x}", self.write_addr, crc, want));
            code = 0x0B;
        }
        for f in self.faults.clone() {
            if let Fault::RejectWrite { nth_write, code: c } = f {
                if nth_write == n {
                    code = c;
                    self.fault_fired = true;
                }
            }
        }
        // only a "write error" response is (sometimes) also visible in the card status; a block
        // rejected for its CRC, or not answered properly at all, leaves the status clean
        self.last_write_failed = code == 0x0D && (n % 2 == 1 || !self.faults.iter().any(|f| matches!(f, Fault::RejectWrite { .. })));
        if code == 0x05 {
            if (self.write_addr as u64) < self.blocks {
                let mut b = [0u8; 512];
                b.copy_from_slice(&payload);
                let a = self.write_addr;
                self.mem.insert(a, Box::new(b));
            } else if self.timing.oor_status_only && multi {
                self.sticky |= 0x80;
            } else {
                code = 0x0D;
            }
            self.write_addr = self.write_addr.wrapping_add(1);
        }
        self.out.push_back((0xE0 | code) as u16);
        self.busy = self.timing.busy_write as u32;
        if multi {
            self.rx = Rx::DataToken { multi: true };
            self.nwr_pending = self.timing.nwr_gap;
        } else {
            self.rx = Rx::Command;
            self.single_writes_done += 1;
        }
    }

    /// One SPI byte exchange.
    pub fn clock(&mut self, mosi: u8) -> u8 {
        let at = self.bytes_total;
        self.bytes_total += 1;
        self.bytes_this_call += 1;
        if self.bytes_this_call > self.byte_budget {
            std::panic::panic_any(SpiBudgetExceeded(self.bytes_this_call));
        }
        // adversarial modes
        for f in self.faults.clone() {
            match f {
                Fault::DeadFrom { at: a } if a as u64 == at => {
                    self.dead = true;
                    self.fault_fired = true;
                }
                Fault::BusyFrom { at: a } if a as u64 == at => {
                    self.stuck_busy = true;
                    self.fault_fired = true;
                }
                Fault::GarbageFrom { at: a, seed } if a as u64 == at => {
                    self.garbage = Some(seed | 1);
                    self.fault_fired = true;
                }
                Fault::StuckFrom { at: a, value } if a as u64 == at => {
                    self.stuck = Some(value);
                    self.fault_fired = true;
                }
                _ => {}
            }
        }
        if self.dead {
            return 0xFF;
        }
        if self.stuck_busy {
            return 0x00;
        }
        if let Some(v) = self.stuck {
            return v;
        }
        if let Some(s) = self.garbage.as_mut() {
            *s ^= *s << 13;
            *s ^= *s >> 17;
            *s ^= *s << 5;
            return (*s >> 11) as u8;
        }
        // what the card drives during this byte is decided before it has seen the byte
        let was_busy = self.busy > 0 && self.out.is_empty();
        let answering = !self.out.is_empty();
        let nrc_slot = self.nrc_slot;
        self.nrc_slot = false;
        let miso = if let Some(b) = self.out.pop_front() {
            if b & 0x100 != 0 && self.frame.is_empty() && mosi == 0xFF {
                // the host is reading this corrupted byte (not talking over it with a command)
                self.fault_fired = true;
            }
            b as u8
        } else if self.busy > 0 {
            self.busy -= 1;
            0x00
        } else {
            0xFF
        };
        if answering && self.out.is_empty() {
            // that was the last byte of whatever the card had to say
            self.nrc_slot = self.resp_tail && self.busy == 0 && self.streaming_read.is_none();
            self.resp_tail = false;
        }
        // refill a streaming read
        if self.out.is_empty() {
            if let Some(b) = self.streaming_read {
                let nb = b.wrapping_add(1);
                if (nb as u64) < self.blocks {
                    self.streaming_read = Some(nb);
                    let d = self.mem_rd(nb);
                    self.queue_data_block(&d);
                } else if self.timing.sticky_status {
                    // read-ahead behind the last block
                    self.sticky |= 0x80;
                }
            }
        }
        // input side
        match self.rx {
            Rx::Command => {
                if self.frame.is_empty() {
                    if self.nrc_swallow > 0 {
                        // rest of a frame whose first byte was not seen
                        self.nrc_swallow -= 1;
                    } else if mosi & 0xC0 == 0x40 && nrc_slot && self.timing.nrc_gap {
                        // N_RC: the card is not listening yet; the frame is lost
                        self.v(format!("CMD{} frame started in the byte slot directly after the card's response (N_RC = 0, the timing table's minimum is 1 byte): the card is not able to accept it", mosi & 0x3F));
                        self.nrc_swallow = 5;
                    } else if mosi & 0xC0 == 0x40 {
                        // a frame starts
                        let cmd = mosi & 0x3F;
                        if was_busy && cmd != 0 && cmd != 12 {
                            self.v(format!("CMD{} frame started while the card was signalling busy", cmd));
                        }
                        self.frame_busy = self.busy > 0;
                        self.frame.push(mosi);
                    } else if mosi != 0xFF {
                        self.v(format!("unexpected byte {:#04x} on MOSI outside any frame", mosi));
                    }
                } else {
                    self.frame.push(mosi);
                    if self.busy > 0 {
                        self.frame_busy = true;
                    }
                    if self.frame.len() == 6 {
                        let mut f = [0u8; 6];
                        f.copy_from_slice(&self.frame);
                        self.frame.clear();
                        let cmd = f[0] & 0x3F;
                        if self.frame_busy && cmd != 0 && cmd != 12 && self.garbage.is_none() {
                            // a card that is programming does not take commands: the frame is lost
                            self.v(format!("CMD{} frame sent while the card was busy", cmd));
                        } else {
                            self.command(f);
                        }
                    }
                }
            }
            Rx::DataToken { multi } if was_busy => {
                // a card that is still programming cannot take a token: it is lost
                let _ = multi;
                if mosi != 0xFF {
                    self.v(format!("byte {:#04x} (token?) sent while the card was signalling busy", mosi));
                }
            }
            Rx::DataToken { .. } if answering => {
                // the host is clocking the card's response in
                if mosi != 0xFF {
                    self.v(format!("byte {:#04x} sent while the card was answering", mosi));
                }
            }
            Rx::DataToken { .. } if self.nwr_pending => {
                // the N_WR slot: whatever the host sends here is not looked at
                self.nwr_pending = false;
            }
            Rx::DataToken { multi } => {
                match mosi {
                    0xFF => {}
                    0xFE if !multi => {
                        if was_busy {
                            self.v("data token sent while the card was busy".to_string());
                        }
                        self.data_buf.clear();
                        self.rx = Rx::Data { multi };
                    }
                    0xFC if multi => {
                        if was_busy {
                            self.v("data token sent while the card was busy".to_string());
                        }
                        self.data_buf.clear();
                        self.rx = Rx::Data { multi };
                    }
                    0xFD if multi => {
                        if was_busy {
                            self.v("stop token sent while the card was busy".to_string());
                        }
                        self.rx = Rx::Command;
                        // the card goes busy: at once, or after one more idle byte
                        self.busy = (self.timing.busy_stop as u32).max(self.timing.busy_stop_write as u32);
                        if self.timing.stop_gap && self.busy > 0 {
                            self.out.push_back(0xFF);
                        }
                    }
                    t => {
                        if t & 0xC0 == 0x40 {
                            // a command instead of data: the card keeps waiting for a token
                            self.v(format!("command byte {:#04x} sent where a data token was expected (multi-block write not terminated by the stop token?)", t));
                        } else {
                            self.v(format!("wrong data token {:#04x} for a {} write", t, if multi { "multi-block" } else { "single-block" }));
                        }
                    }
                }
            }
            Rx::Data { multi } => {
                self.data_buf.push(mosi);
                if self.data_buf.len() == 514 {
                    self.data_block_received(multi);
                }
            }
        }
        miso
    }
}

impl ErrorType for SimCard {
    type Error = SpiErr;
}

impl SpiDevice<u8> for SimCard {
    fn transaction(&mut self, operations: &mut [Operation<'_, u8>]) -> Result<(), SpiErr> {
        let mut c = self.0.borrow_mut();
        let n = c.transactions;
        c.transactions += 1;
        // `acquire` ends with one more `read_byte()`: the first one-byte transfer after the
        // identification sequence has completed and its last response has been read
        let idle_single = {
            let done = (c.kind == Kind::V1Sc && c.init_state >= 3) || c.init_state >= 4;
            let last = c.cmd_log.last().map(|x| x.0);
            let one_byte = operations.len() == 1 && matches!(&operations[0], Operation::Transfer(r, w) if r.len() == 1 && w.len() == 1);
            done && matches!(last, Some(58) | Some(0xA9)) && c.out.is_empty() && one_byte
        };
        for f in c.faults.clone() {
            if let Fault::SpiError { nth_transaction } = f {
                if nth_transaction == n {
                    c.fault_fired = true;
                    c.spi_err_in_ignored_trailer = idle_single && c.post_init_idle_reads == 0;
                    return Err(SpiErr);
                }
            }
        }
        if idle_single {
            c.post_init_idle_reads += 1;
        }
        for op in operations.iter_mut() {
            match op {
                Operation::Read(buf) => {
                    for b in buf.iter_mut() {
                        *b = c.clock(0xFF);
                    }
                }
                Operation::Write(buf) => {
                    for b in buf.iter() {
                        c.clock(*b);
                    }
                }
                Operation::Transfer(rd, wr) => {
                    let n = rd.len().max(wr.len());
                    for i in 0..n {
                        let o = wr.get(i).copied().unwrap_or(0xFF);
                        let x = c.clock(o);
                        if i < rd.len() {
                            rd[i] = x;
                        }
                    }
                }
                Operation::TransferInPlace(buf) => {
                    for b in buf.iter_mut() {
                        *b = c.clock(*b);
                    }
                }
                Operation::DelayNs(_) => {
                    c.delays += 1;
                }
            }
        }
        Ok(())
    }
}

pub struct NoDelay(pub Rc<std::cell::Cell<u64>>);
impl embedded_hal::delay::DelayNs for NoDelay {
    fn delay_ns(&mut self, _ns: u32) {
        self.0.set(self.0.get() + 1);
    }
}
