//! C12 / C13 / C14: the SD driver against the simulated card.

use crate::runner::{Acc, Failure};
use crate::sd::card::*;
use embedded_sdmmc::sdcard::{AcquireOpts, CardType};
use embedded_sdmmc::{Block, BlockDevice, BlockIdx, SdCard};
use proptest::prelude::*;
use serde::{Deserialize, Serialize};
use serde_json::json;
use std::collections::HashMap;
use std::panic::{catch_unwind, AssertUnwindSafe};
use std::rc::Rc;

#[derive(Clone, Debug, Serialize, Deserialize, PartialEq)]
pub enum BlockSel {
    Zero,
    One,
    Last,
    LastMinus(u8),
    Pow2(u8),
    Pow2Minus1(u8),
    High(u32),
    Frac(u16),
    Exact(u32),
}

impl BlockSel {
    pub fn resolve(&self, blocks: u64, n: u32) -> u32 {
        let max_start = blocks.saturating_sub(n as u64);
        let v: u64 = match self {
            BlockSel::Zero => 0,
            BlockSel::One => 1,
            BlockSel::Last => max_start,
            BlockSel::LastMinus(k) => max_start.saturating_sub(*k as u64),
            BlockSel::Pow2(k) => 1u64 << (*k % 32),
            BlockSel::Pow2Minus1(k) => (1u64 << (*k % 32)) - 1,
            BlockSel::High(x) => (1u64 << 23) + *x as u64 % (1u64 << 30),
            BlockSel::Frac(f) => (max_start * *f as u64) >> 16,
            BlockSel::Exact(x) => *x as u64,
        };
        v.min(max_start).min(u32::MAX as u64) as u32
    }
    fn class(&self) -> &'static str {
        match self {
            BlockSel::Zero => "0",
            BlockSel::One => "1",
            BlockSel::Last => "last",
            BlockSel::LastMinus(_) => "last-n",
            BlockSel::Pow2(_) => "2^k",
            BlockSel::Pow2Minus1(_) => "2^k-1",
            BlockSel::High(_) => ">=2^23",
            BlockSel::Frac(_) => "random",
            BlockSel::Exact(_) => "exact",
        }
    }
}

#[derive(Clone, Debug, Serialize, Deserialize, PartialEq)]
pub enum SdCall {
    Read { block: BlockSel, n: u8 },
    Write { block: BlockSel, n: u8, seed: u32 },
    /// read back a block written earlier in this sequence
    ReadBack { which: u16, n: u8 },
    NumBlocks,
    NumBytes,
    CardType,
    MarkUninit,
    /// a transfer that starts `past` blocks behind the card's last block: the card refuses the
    /// command; nothing may be stored anywhere and the call must fail
    Beyond { write: bool, past: u8, n: u8, seed: u32 },
}

#[derive(Clone, Debug, Serialize, Deserialize, PartialEq)]
pub struct SdCase {
    pub kind: Kind,
    pub use_crc: bool,
    pub acquire_retries: u8,
    pub cap: Capacity,
    pub timing: Timing,
    pub bg_seed: u32,
    pub calls: Vec<SdCall>,
    pub faults: Vec<Fault>,
}

fn fail(prop: &str, code: &str, detail: String) -> Failure {
    Failure { sig: format!("{}/{}", prop, code), detail }
}

fn payload(seed: u32, k: u32) -> [u8; 512] {
    bg_block(seed ^ 0xABCD_1234, k)
}

type Drv = SdCard<SimCard, NoDelay>;

/// Read buffers arrive with old contents: here well-formed CMD12 and CMD0 frames, so that a
/// driver that clocks the buffer out instead of idling MOSI visibly disturbs the card.
fn dirty_block() -> Block {
    let mut b = Block::new();
    let frames: [[u8; 6]; 2] = [[0x4C, 0, 0, 0, 0, 0x61], [0x40, 0, 0, 0, 0, 0x95]];
    for (i, c) in b.contents.chunks_mut(6).enumerate() {
        let f = frames[(i / 3) % 2];
        let n = c.len();
        c.copy_from_slice(&f[..n]);
    }
    b
}

#[derive(Debug, Clone, PartialEq)]
enum Out {
    Read(Vec<[u8; 512]>),
    Unit,
    Blocks(u32),
    Bytes(u64),
    Type(Option<CardType>),
    /// an out-of-range transfer was refused, as it must be
    Refused,
}

/// Execute one call; `Err(String)` = driver returned an error; `Err(Failure)` outer = panic/hang.
fn do_call(sd: &Drv, card: &SimCard, call: &SdCall, blocks_cap: u64, written: &[u32]) -> Result<(Result<Out, String>, u32, u32), (String, bool)> {
    card.begin_call();
    let mut start = 0u32;
    let mut count = 0u32;
    let r = catch_unwind(AssertUnwindSafe(|| -> Result<Out, String> {
        match call {
            SdCall::Read { block, n } => {
                let n = ((*n).max(1) as u64).min(blocks_cap) as u32;
                start = block.resolve(blocks_cap, n);
                count = n;
                let mut bl = vec![dirty_block(); n as usize];
                sd.read(&mut bl, BlockIdx(start)).map_err(|e| format!("{:?}", e))?;
                Ok(Out::Read(bl.iter().map(|b| b.contents).collect()))
            }
            SdCall::ReadBack { which, n } => {
                let n = ((*n).max(1) as u64).min(blocks_cap) as u32;
                let base = if written.is_empty() { 0 } else { written[(*which as usize * written.len()) >> 16] };
                start = (base as u64).min(blocks_cap.saturating_sub(n as u64)) as u32;
                count = n;
                let mut bl = vec![dirty_block(); n as usize];
                sd.read(&mut bl, BlockIdx(start)).map_err(|e| format!("{:?}", e))?;
                Ok(Out::Read(bl.iter().map(|b| b.contents).collect()))
            }
            SdCall::Write { block, n, seed } => {
                let n = ((*n).max(1) as u64).min(blocks_cap) as u32;
                start = block.resolve(blocks_cap, n);
                count = n;
                let bl: Vec<Block> = (0..n).map(|k| Block { contents: payload(*seed, k) }).collect();
                sd.write(&bl, BlockIdx(start)).map_err(|e| format!("{:?}", e))?;
                Ok(Out::Unit)
            }
            SdCall::Beyond { write, past, n, seed } => {
                // past < 128: the transfer starts behind the last block; otherwise it starts on
                // one of the last blocks and runs over the end of the card
                let crossing = *past >= 128 && blocks_cap >= 3;
                let n = if crossing { (*n).clamp(2, 3) as u32 } else { (*n).clamp(1, 3) as u32 };
                let s0 = if crossing { blocks_cap - 1 - (*past as u64 % (n as u64 - 1)) } else { blocks_cap + *past as u64 % 4 };
                if s0 + n as u64 > u32::MAX as u64 {
                    return Ok(Out::Unit);
                }
                start = s0 as u32;
                count = n;
                let r = if *write {
                    let bl: Vec<Block> = (0..n).map(|k| Block { contents: payload(*seed, k) }).collect();
                    sd.write(&bl, BlockIdx(start))
                } else {
                    let mut bl = vec![dirty_block(); n as usize];
                    sd.read(&mut bl, BlockIdx(start))
                };
                match r {
                    // the card was never identified: that is a failed first use, not a refusal
                    Err(e) if card.0.borrow().inits_completed == 0 => Err(format!("{:?}", e)),
                    Err(_) => Ok(Out::Refused),
                    Ok(()) => Err(format!("transfer of {} block(s) at block {} succeeded although the card has only {} blocks", n, start, blocks_cap)),
                }
            }
            SdCall::NumBlocks => sd.num_blocks().map(|b| Out::Blocks(b.0)).map_err(|e| format!("{:?}", e)),
            SdCall::NumBytes => sd.num_bytes().map(Out::Bytes).map_err(|e| format!("{:?}", e)),
            // get_card_type has no Result: None is how it reports that initialisation failed
            SdCall::CardType => match sd.get_card_type() {
                Some(t) => Ok(Out::Type(Some(t))),
                None => Err("get_card_type() = None".to_string()),
            },
            SdCall::MarkUninit => {
                sd.mark_card_uninit();
                Ok(Out::Unit)
            }
        }
    }));
    match r {
        Ok(x) => Ok((x, start, count)),
        Err(p) => {
            if p.downcast_ref::<SpiBudgetExceeded>().is_some() {
                Err(("SPI byte budget exceeded: the call does not terminate within the bound".into(), true))
            } else {
                Err((crate::interp::panic_msg(&p).0, false))
            }
        }
    }
}

fn expand_to_singles(calls: &[SdCall]) -> Vec<(usize, SdCall, u32)> {
    // (original index, single-block call, block offset) - only structure; resolution happens at run time
    let mut v = Vec::new();
    for (i, c) in calls.iter().enumerate() {
        v.push((i, c.clone(), 0));
    }
    v
}

pub struct RunOut {
    pub reads: Vec<(usize, Vec<[u8; 512]>)>,
    pub mem: HashMap<u32, Box<[u8; 512]>>,
    pub viol: Vec<String>,
    pub cmd_log: Vec<(u8, u32)>,
}

thread_local! {
    /// protocol-monitor findings of the most recent fault-free run on this thread
    static LAST_VIOLATIONS: std::cell::RefCell<Vec<String>> = std::cell::RefCell::new(Vec::new());
}

struct ViolGuard(SimCard);
impl Drop for ViolGuard {
    fn drop(&mut self) {
        let v = self.0 .0.borrow().viol.clone();
        LAST_VIOLATIONS.with(|l| *l.borrow_mut() = v);
    }
}

/// Fault-free run: C12 oracle (model of the card memory), optionally with
/// every n-block call replaced by n single-block calls.
pub fn run_clean(c: &SdCase, split: bool, prop: &'static str, acc: &mut Acc) -> Result<RunOut, Failure> {
    let card = SimCard::new(c.kind, c.timing.clone(), c.cap.clone(), c.bg_seed, vec![]);
    let delay = NoDelay(Rc::new(std::cell::Cell::new(0)));
    // a sluggish card gets no extra attempts: the first use(s) may end in "card not found"
    let retries = c.acquire_retries.max(1) as u32 + if c.timing.sluggish { 0 } else { c.timing.cmd0_ignored as u32 };
    let sd: Drv = SdCard::new_with_options(card.clone(), delay, AcquireOpts { use_crc: c.use_crc, acquire_retries: retries });
    // how often an identification may legitimately fail before it has to work
    let mut init_failures_left: u32 = (c.timing.init_polls > 10_000) as u32 + if c.timing.sluggish { c.timing.cmd0_ignored as u32 } else { 0 };
    let legit_init_failure = |e: &str| e.contains("TimeoutACommand") || e.contains("get_card_type() = None") || (c.timing.sluggish && e.contains("CardNotFound"));
    let blocks_cap = card.0.borrow().blocks;
    let _guard = ViolGuard(card.clone());
    let v2_layout = c.kind == Kind::V2Hc;
    let mut model: HashMap<u32, [u8; 512]> = HashMap::new();
    let mut written: Vec<u32> = Vec::new();
    let mut reads = Vec::new();
    let mut init_failed_once = false;
    let _ = expand_to_singles;
    for (i, call) in c.calls.iter().enumerate() {
        // split multi-block transfers into singles when asked
        let pieces: Vec<SdCall> = if split {
            match call {
                SdCall::Read { block, n } if *n > 1 => {
                    let nn = ((*n).max(1) as u64).min(blocks_cap) as u32;
                    let s = block.resolve(blocks_cap, nn);
                    (0..nn).map(|k| SdCall::Read { block: BlockSel::Exact(s + k), n: 1 }).collect()
                }
                SdCall::ReadBack { which, n } if *n > 1 => {
                    let base = if written.is_empty() { 0 } else { written[(*which as usize * written.len()) >> 16] };
                    let nn = ((*n).max(1) as u64).min(blocks_cap) as u32;
                    let s = (base as u64).min(blocks_cap.saturating_sub(nn as u64)) as u32;
                    (0..nn).map(|k| SdCall::Read { block: BlockSel::Exact(s + k), n: 1 }).collect()
                }
                SdCall::Write { .. } => vec![call.clone()], // handled below
                _ => vec![call.clone()],
            }
        } else {
            vec![call.clone()]
        };
        let mut joined_read: Vec<[u8; 512]> = Vec::new();
        for piece in pieces {
            // writes split by hand (payload index must be kept)
            if let (true, SdCall::Write { block, n, seed }) = (split, &piece) {
                let n = ((*n).max(1) as u64).min(blocks_cap) as u32;
                let s = block.resolve(blocks_cap, n);
                for k in 0..n {
                    card.begin_call();
                    let bl = [Block { contents: payload(*seed, k) }];
                    let r = catch_unwind(AssertUnwindSafe(|| sd.write(&bl, BlockIdx(s + k))));
                    match r {
                        Ok(Ok(())) => {
                            model.insert(s + k, payload(*seed, k));
                            written.push(s + k);
                        }
                        Ok(Err(e)) => {
                            let mut last = format!("{:?}", e);
                            let mut done = false;
                            while init_failures_left > 0 && legit_init_failure(&last) && card.0.borrow().inits_completed == 0 {
                                init_failures_left -= 1;
                                init_failed_once = true;
                                // retry the same block
                                match catch_unwind(AssertUnwindSafe(|| sd.write(&bl, BlockIdx(s + k)))) {
                                    Ok(Ok(())) => {
                                        model.insert(s + k, payload(*seed, k));
                                        written.push(s + k);
                                        done = true;
                                        break;
                                    }
                                    Ok(Err(e2)) => last = format!("{:?}", e2),
                                    Err(_) => return Err(fail(prop, "panic", format!("call {} (split): retry after a failed identification panicked", i))),
                                }
                            }
                            if done {
                                continue;
                            }
                            return Err(fail(prop, "write-failed", format!("call {} (split): write of block {} failed: {}", i, s + k, last)));
                        }
                        Err(p) => return Err(fail(prop, "panic", format!("call {}: {}", i, crate::interp::panic_msg(&p).0))),
                    }
                }
                continue;
            }
            let (mut r, mut start, mut count) = match do_call(&sd, &card, &piece, blocks_cap, &written) {
                Ok(x) => x,
                Err((m, hang)) => return Err(fail(prop, if hang { "hang" } else { "panic" }, format!("call {} {:?}: {}", i, piece, m))),
            };
            // a card that needs more ACMD41 polls, or ignores more CMD0 frames, than the driver's
            // budget allows: the first use(s) fail (legitimately); the driver must start over with
            // CMD0 on the retry
            while init_failures_left > 0 && card.0.borrow().inits_completed == 0 && matches!(&r, Err(e) if legit_init_failure(e)) {
                init_failures_left -= 1;
                init_failed_once = true;
                acc.class("first-initialisation-failed-legitimately");
                (r, start, count) = match do_call(&sd, &card, &piece, blocks_cap, &written) {
                    Ok(x) => x,
                    Err((m, hang)) => return Err(fail(prop, if hang { "hang" } else { "panic" }, format!("call {} {:?}: {}", i, piece, m))),
                };
            }
            let out = match r {
                Ok(o) => o,
                Err(e) => return Err(fail(prop, "call-failed", format!("call {} {:?} (blocks {}..{}) on a healthy {:?} card failed: {}", i, piece, start, start + count, c.kind, e))),
            };
            match (&piece, out) {
                (SdCall::Read { .. }, Out::Read(v)) | (SdCall::ReadBack { .. }, Out::Read(v)) => {
                    for (k, b) in v.iter().enumerate() {
                        let blk = start + k as u32;
                        let want = model.get(&blk).copied().unwrap_or_else(|| bg_block(c.bg_seed, blk));
                        if *b != want {
                            let p = b.iter().zip(want.iter()).position(|(a, b)| a != b).unwrap();
                            return Err(fail(prop, "read-wrong-data", format!("call {}: block {} read back differs from what the card stores (byte {}: {:#04x} vs {:#04x}); card {:?}", i, blk, p, b[p], want[p], c.kind)));
                        }
                    }
                    joined_read.extend(v);
                }
                (SdCall::Write { seed, .. }, Out::Unit) => {
                    for k in 0..count {
                        model.insert(start + k, payload(*seed, k));
                        written.push(start + k);
                    }
                }
                (SdCall::Beyond { write: true, seed, .. }, Out::Refused) if (start as u64) < blocks_cap => {
                    // a write that runs over the end of the card fails as a whole, but the blocks
                    // in front of the end have been stored - as the same single-block writes
                    // would have stored them before the first one fails
                    for k in 0..(blocks_cap - start as u64) as u32 {
                        model.insert(start + k, payload(*seed, k));
                        written.push(start + k);
                    }
                    acc.class("call:write-running-over-the-end");
                }
                (SdCall::NumBlocks, Out::Blocks(b)) => {
                    let want = capacity_blocks(v2_layout, &c.cap);
                    if b as u64 != want {
                        return Err(fail(prop, "capacity-blocks", format!("num_blocks() = {} but the card's CSD (structure version {}) encodes {} blocks; card {:?} {:?}", b, if v2_layout { 2 } else { 1 }, want, c.kind, c.cap)));
                    }
                }
                (SdCall::NumBytes, Out::Bytes(b)) => {
                    let want = capacity_blocks(v2_layout, &c.cap) * 512;
                    if b != want {
                        return Err(fail(prop, "capacity-bytes", format!("num_bytes() = {} but the card's CSD encodes {} bytes; card {:?} {:?}", b, want, c.kind, c.cap)));
                    }
                }
                (SdCall::CardType, Out::Type(t)) => {
                    let want = match c.kind {
                        Kind::V1Sc => CardType::SD1,
                        Kind::V2Sc => CardType::SD2,
                        Kind::V2Hc => CardType::SDHC,
                    };
                    if t != Some(want) {
                        return Err(fail(prop, "card-type", format!("get_card_type() = {:?} for a {:?} card", t, c.kind)));
                    }
                }
                _ => {}
            }
            // the card's memory equals the model everywhere
            let inner = card.0.borrow();
            for (b, d) in inner.mem.iter() {
                let want = model.get(b).copied().unwrap_or_else(|| bg_block(c.bg_seed, *b));
                if **d != want {
                    return Err(fail(prop, "stray-or-wrong-write", format!("after call {} {:?}: card block {} holds data that the model does not expect there (addressing error?)", i, piece, b)));
                }
            }
            for (b, d) in model.iter() {
                if inner.mem.get(b).map(|x| **x) != Some(*d) && *d != bg_block(c.bg_seed, *b) {
                    return Err(fail(prop, "write-missing", format!("after call {} {:?}: block {} was written but the card does not hold it", i, piece, b)));
                }
            }
        }
        if !joined_read.is_empty() {
            reads.push((i, joined_read));
        }
        acc.class(match call {
            SdCall::Read { block, n } => {
                if *n > 1 {
                    acc_class_static(block.class(), true)
                } else {
                    acc_class_static(block.class(), false)
                }
            }
            SdCall::Write { n, .. } => {
                if *n > 1 {
                    "call:multi-write"
                } else {
                    "call:single-write"
                }
            }
            SdCall::ReadBack { .. } => "call:read-back",
            SdCall::NumBlocks | SdCall::NumBytes => "call:capacity",
            SdCall::CardType => "call:card-type",
            SdCall::MarkUninit => "call:mark-uninit",
            SdCall::Beyond { .. } => "call:transfer-beyond-the-last-block",
        });
    }
    let inner = card.0.borrow();
    Ok(RunOut { reads, mem: inner.mem.clone(), viol: inner.viol.clone(), cmd_log: inner.cmd_log.clone() })
}

fn acc_class_static(c: &'static str, multi: bool) -> &'static str {
    match (c, multi) {
        ("0", _) => "read:block-0",
        ("1", _) => "read:block-1",
        ("last", _) => "read:last",
        ("last-n", _) => "read:last-n",
        ("2^k", _) => "read:2^k",
        ("2^k-1", _) => "read:2^k-1",
        (">=2^23", _) => "read:>=2^23",
        _ => {
            if multi {
                "read:random-multi"
            } else {
                "read:random-single"
            }
        }
    }
}

pub fn run_c12_c14(c: &SdCase, prop: &'static str, acc: &mut Acc) -> Result<(), Failure> {
    let a = match run_clean(c, false, prop, acc) {
        Ok(a) => a,
        Err(f) => {
            // for the protocol property the monitor's own finding is the more precise report
            if prop == "C14" {
                if let Some(v) = LAST_VIOLATIONS.with(|l| l.borrow().first().cloned()) {
                    return Err(fail("C14", "protocol-violation", format!("{} (then: {}; card {:?}, crc {}, timing {:?})", v, f.detail, c.kind, c.use_crc, c.timing)));
                }
            }
            return Err(f);
        }
    };
    if prop == "C14" || prop == "C12" {
        if prop == "C14" {
            if let Some(v) = a.viol.first() {
                return Err(fail("C14", "protocol-violation", format!("{} (card {:?}, crc {}, timing {:?})", v, c.kind, c.use_crc, c.timing)));
            }
        }
    }
    if prop == "C12" {
        // metamorphic: every n-block transfer replaced by n single-block transfers
        let b = run_clean(c, true, prop, acc)?;
        if a.mem != b.mem {
            return Err(fail("C12", "multi-differs-from-singles", "card memory after multi-block transfers differs from the same transfers done block by block".into()));
        }
        if a.reads != b.reads {
            return Err(fail("C12", "multi-read-differs-from-singles", "a multi-block read returned different data than the same blocks read one by one".into()));
        }
    }
    let multi = c.calls.iter().any(|x| matches!(x, SdCall::Write { n, .. } | SdCall::Read { n, .. } | SdCall::ReadBack { n, .. } if *n > 1));
    let readback = c.calls.iter().any(|x| matches!(x, SdCall::ReadBack { .. })) && c.calls.iter().any(|x| matches!(x, SdCall::Write { .. }));
    let reinit = c.calls.iter().any(|x| matches!(x, SdCall::MarkUninit));
    let multi_write = c.calls.iter().any(|x| matches!(x, SdCall::Write { n, .. } if *n > 1));
    acc.class(&format!("card:{:?}-crc{}", c.kind, c.use_crc));
    acc.class(&format!("ncr:{}", c.timing.ncr));
    let nt = if prop == "C12" { multi && readback } else { multi_write && reinit };
    if nt {
        let kinds: Vec<u8> = c.calls.iter().map(call_code).collect();
        if prop == "C14" {
            acc.shape(&(c.kind as u8, c.use_crc, a.cmd_log.iter().map(|x| x.0).collect::<Vec<u8>>()));
        } else {
            acc.shape(&(c.kind as u8, c.use_crc, kinds, c.timing.ncr));
        }
        if acc.samples.len() < 3 {
            acc.sample(json!({"card": format!("{:?}", c.kind), "crc": c.use_crc, "capacity": c.cap, "timing": c.timing, "calls": c.calls.iter().take(12).map(|x| format!("{:?}", x)).collect::<Vec<_>>(), "commands_on_bus": a.cmd_log.len()}));
        }
    }
    Ok(())
}

fn call_code(c: &SdCall) -> u8 {
    match c {
        SdCall::Read { n, .. } => {
            if *n > 1 {
                1
            } else {
                0
            }
        }
        SdCall::Write { n, .. } => {
            if *n > 1 {
                3
            } else {
                2
            }
        }
        SdCall::ReadBack { n, .. } => {
            if *n > 1 {
                5
            } else {
                4
            }
        }
        SdCall::NumBlocks => 6,
        SdCall::NumBytes => 7,
        SdCall::CardType => 8,
        SdCall::MarkUninit => 9,
        SdCall::Beyond { write, .. } => 10 + *write as u8,
    }
}

/// C13: one fault (or a small set) injected into a C12-style sequence.
pub fn run_c13(c: &SdCase, acc: &mut Acc) -> Result<(), Failure> {
    run_faulted(c, acc, false)
}

/// C14 on sequences with an injected fault ("calls after errors"): the protocol monitor judges the
/// healthy prefix and everything the driver sends after the card has been power-cycled; what it
/// sends while the card misbehaves is not judged (there is no single correct reaction), and C13's
/// own verdicts are not reported here.
pub fn run_c14_after_fault(c: &SdCase, acc: &mut Acc) -> Result<(), Failure> {
    match run_faulted(c, acc, true) {
        Err(f) if f.sig.starts_with("C14/") => Err(f),
        Err(_) => {
            acc.class("c14-after-fault:run-ended-by-a-C13-verdict");
            Ok(())
        }
        Ok(()) => Ok(()),
    }
}

fn run_faulted(c: &SdCase, acc: &mut Acc, monitor: bool) -> Result<(), Failure> {
    // slow-to-initialise cards belong to C12/C14; here the card is healthy until the fault
    let mut timing = c.timing.clone();
    timing.init_polls = timing.init_polls.min(6);
    let card = SimCard::new(c.kind, timing, c.cap.clone(), c.bg_seed, c.faults.clone());
    card.0.borrow_mut().monitor_on = monitor;
    let delay = NoDelay(Rc::new(std::cell::Cell::new(0)));
    let sd: Drv = SdCard::new_with_options(card.clone(), delay, AcquireOpts { use_crc: c.use_crc, acquire_retries: c.acquire_retries.max(1) as u32 + c.timing.cmd0_ignored as u32 });
    let blocks_cap = card.0.borrow().blocks;
    let mut written: Vec<u32> = Vec::new();
    let mut fault_seen = false;
    let mut after_success = false;
    let mut calls_after_recovery = 0u32;
    for (i, call) in c.calls.iter().enumerate() {
        if monitor {
            // verdict of the monitor on everything up to the previous call
            if let Some(v) = card.0.borrow().viol.first() {
                return Err(fail(
                    "C14",
                    if fault_seen { "protocol-violation-after-error" } else { "protocol-violation" },
                    format!("{} (before call {} {:?}; card {:?}, crc {}, fault {:?}{})", v, i, call, c.kind, c.use_crc, c.faults, if fault_seen { ", card power-cycled after the faulted call" } else { ", not yet fired" }),
                ));
            }
            if fault_seen {
                calls_after_recovery += 1;
            }
        }
        if matches!(call, SdCall::Beyond { .. }) {
            // refused transfers belong to the fault-free runs (their Err is the expected answer)
            continue;
        }
        let viol_before = card.0.borrow().viol.len();
        let fired_before = card.0.borrow().fault_fired;
        let inits_before = card.0.borrow().inits_completed;
        let reads_before = card.0.borrow().reads_sent;
        let (r, start, count) = match do_call(&sd, &card, call, blocks_cap, &written) {
            Ok(x) => x,
            Err((m, hang)) => {
                return Err(fail("C13", if hang { "unbounded" } else { "panic" }, format!("call {} {:?} with faults {:?} (card {:?}, crc {}): {}", i, call, c.faults, c.kind, c.use_crc, m)));
            }
        };
        let mut fired_now = card.0.borrow().fault_fired && !fired_before;
        if fired_now && r.is_ok() {
            // a multi-block read makes the card queue the block *after* the last one asked for;
            // damage in that block reaches the host, if at all, as filler between the data and
            // CMD12 - it is not data the call returns
            let asked = reads_before as u64 + count as u64;
            let ahead_only = c.faults.iter().all(|f| match f {
                Fault::FlipBit { nth_read, .. } | Fault::Burst { nth_read, .. } | Fault::WrongToken { nth_read, .. } => *nth_read as u64 >= asked,
                _ => false,
            });
            if ahead_only {
                fired_now = false;
                acc.class("fault:only-in-the-read-ahead-block");
            }
        }
        if !fired_now && !fault_seen {
            // healthy prefix: must simply work
            match &r {
                Err(e) => return Err(fail("C13", "healthy-call-failed", format!("call {} {:?} failed before any fault was injected: {}", i, call, e))),
                Ok(Out::Read(v)) => {
                    for (k, b) in v.iter().enumerate() {
                        if *b != card.read_mem(start + k as u32) {
                            return Err(fail("C13", "read-wrong-data", format!("call {}: block {} differs from the card's memory", i, start + k as u32)));
                        }
                    }
                    after_success = true;
                }
                Ok(_) => {
                    after_success = true;
                }
            }
            if let SdCall::Write { .. } = call {
                for k in 0..count {
                    written.push(start + k);
                }
            }
            continue;
        }
        if fired_now {
            fault_seen = true;
            if after_success {
                acc.class("fault-after-successful-command");
            }
            let f = &c.faults[0];
            acc.class(&format!("fault:{}", fault_name(f)));
            let must_err = match f {
                Fault::FlipBit { .. } | Fault::Burst { .. } => c.use_crc,
                Fault::WrongToken { .. } => true,
                Fault::RejectWrite { .. } => true,
                Fault::WriteStatus { r1, status, .. } => (*r1 & 0x7F) != 0 || *status != 0,
                // "an SPI bus error yields an error": unconditionally, the trailing dummy byte of the
                // identification sequence included
                Fault::SpiError { .. } => true,
                Fault::DeadFrom { .. } | Fault::BusyFrom { .. } | Fault::GarbageFrom { .. } | Fault::StuckFrom { .. } => false,
                // only version 2 cards answer CMD8 with an echo; identification must give up
                Fault::WrongCmd8Echo { .. } => true,
            };
            match &r {
                Ok(out) => {
                    if must_err {
                        return Err(fail(
                            "C13",
                            "fault-reported-as-success",
                            format!("call {} {:?} returned Ok although {:?} was injected (card {:?}, crc {})", i, call, f, c.kind, c.use_crc),
                        ));
                    }
                    // Ok with CRC on must mean correct data (bit flips are always CRC-detectable)
                    if let (Out::Read(v), true, Fault::FlipBit { .. } | Fault::Burst { .. }) = (out, c.use_crc, f) {
                        for (k, b) in v.iter().enumerate() {
                            if *b != card.read_mem(start + k as u32) {
                                return Err(fail("C13", "corrupted-data-returned-as-good", format!("call {}: block {} differs from the card's memory although CRC checking is on", i, start + k as u32)));
                            }
                        }
                    }
                }
                Err(_) => {}
            }
            // ---- recovery
            // "a failed initialisation leaves the card marked uninitialised" is only tested where the
            // driver must notice the failure; a card answering garbage, or holding the line low (0x00 reads
            // as "ready"), can fake a complete handshake
            // an SPI error on the trailing byte of the identification sequence: the card has completed
            // its side, the driver's call has failed all the same - a failed initialisation
            let trailer = matches!(f, Fault::SpiError { .. }) && spi_error_in_ignored_trailer(&card);
            if trailer {
                acc.class("fault:spi-error-on-identification-trailer");
            }
            let init_failure = (card.0.borrow().inits_completed == inits_before || trailer)
                && reads_before == card.0.borrow().reads_sent
                && i == first_device_call(c)
                && r.is_err()
                && matches!(f, Fault::DeadFrom { .. } | Fault::SpiError { .. } | Fault::WrongCmd8Echo { .. });
            // faults that only damage data or refuse a block leave the card a well-behaved SPI peer:
            // under the monitor it keeps running as it is, and everything the driver sends - in the
            // faulted call and after it - is judged ("calls after errors")
            let data_level = matches!(f, Fault::FlipBit { .. } | Fault::Burst { .. } | Fault::WrongToken { .. } | Fault::RejectWrite { .. } | Fault::WriteStatus { .. });
            if monitor && data_level {
                acc.class("c14-after-fault:card-kept-running-after-data-level-fault");
                continue;
            }
            card.power_cycle();
            // what the driver sent while the card misbehaved is not judged
            card.0.borrow_mut().viol.truncate(viol_before);
            if !(init_failure) {
                sd.mark_card_uninit();
            } else {
                acc.class("recovery:init-failure-without-mark-uninit");
            }
            continue;
        }
        // after the fault: the healed card must work again
        match &r {
            Err(e) => {
                return Err(fail(
                    "C13",
                    "no-recovery",
                    format!("call {} {:?} failed ({}) after the card had been healed{}; fault was {:?} (card {:?}, crc {})", i, call, e, "", c.faults, c.kind, c.use_crc),
                ));
            }
            Ok(Out::Read(v)) => {
                for (k, b) in v.iter().enumerate() {
                    if *b != card.read_mem(start + k as u32) {
                        return Err(fail("C13", "read-wrong-data-after-recovery", format!("call {}: block {} differs from the card's memory", i, start + k as u32)));
                    }
                }
            }
            Ok(_) => {}
        }
        if let SdCall::Write { seed, .. } = call {
            for k in 0..count {
                if card.read_mem(start + k) != payload(*seed, k) {
                    return Err(fail("C13", "write-lost-after-recovery", format!("call {}: block {} not stored", i, start + k)));
                }
                written.push(start + k);
            }
        }
    }
    if monitor {
        if let Some(v) = card.0.borrow().viol.first() {
            return Err(fail(
                "C14",
                if fault_seen { "protocol-violation-after-error" } else { "protocol-violation" },
                format!("{} (last call; card {:?}, crc {}, fault {:?})", v, c.kind, c.use_crc, c.faults),
            ));
        }
        if fault_seen && calls_after_recovery > 0 {
            acc.class("c14-after-fault:sequences-with-calls-after-recovery");
            acc.shape(&("after-fault", c.kind as u8, c.use_crc, fault_name(&c.faults[0]), c.calls.iter().map(call_code).collect::<Vec<u8>>()));
        }
        return Ok(());
    }
    if fault_seen {
        acc.shape(&(c.kind as u8, c.use_crc, format!("{:?}", c.faults), c.calls.iter().map(call_code).collect::<Vec<u8>>()));
        if acc.samples.len() < 3 {
            acc.sample(json!({"card": format!("{:?}", c.kind), "crc": c.use_crc, "faults": format!("{:?}", c.faults), "calls": c.calls.iter().take(8).map(|x| format!("{:?}", x)).collect::<Vec<_>>()}));
        }
    } else {
        acc.class("fault-never-fired");
    }
    acc.class(&format!("card:{:?}-crc{}", c.kind, c.use_crc));
    Ok(())
}

fn first_device_call(c: &SdCase) -> usize {
    c.calls.iter().position(|x| !matches!(x, SdCall::MarkUninit)).unwrap_or(0)
}

/// The driver ignores the result of one trailing byte read at the end of the
/// identification sequence by design (`let _ = self.read_byte()`).
fn spi_error_in_ignored_trailer(card: &SimCard) -> bool {
    card.0.borrow().spi_err_in_ignored_trailer
}

fn fault_name(f: &Fault) -> &'static str {
    match f {
        Fault::FlipBit { .. } => "flip-bit",
        Fault::Burst { .. } => "burst",
        Fault::WrongToken { .. } => "wrong-token",
        Fault::RejectWrite { .. } => "reject-write",
        Fault::WriteStatus { .. } => "write-status",
        Fault::DeadFrom { .. } => "dead-from",
        Fault::BusyFrom { .. } => "busy-from",
        Fault::GarbageFrom { .. } => "garbage-from",
        Fault::StuckFrom { .. } => "stuck-from",
        Fault::SpiError { .. } => "spi-error",
        Fault::WrongCmd8Echo { .. } => "wrong-cmd8-echo",
    }
}

// ------------------------------------------------------------ strategies

pub fn kind_strategy() -> impl Strategy<Value = Kind> {
    prop_oneof![Just(Kind::V1Sc), Just(Kind::V2Sc), Just(Kind::V2Hc)]
}

pub fn capacity_strategy(kind: Kind) -> BoxedStrategy<Capacity> {
    if kind == Kind::V2Hc {
        prop_oneof![Just(0u32), Just(1u32), Just(0x1010u32), Just(0xFFFFu32), Just(0x10000u32), Just(0x3F_FEFFu32), Just(0x1D_FFFFu32), (0u32..0x3F_FF00)]
            .prop_map(|c_size| Capacity { read_bl_len: 9, c_size_mult: 0, c_size })
            .boxed()
    } else {
        (prop_oneof![Just(9u8), Just(10u8), Just(11u8)], 0u8..8, prop_oneof![Just(0u32), Just(1u32), Just(4095u32), Just(2047u32), (0u32..4096)])
            .prop_map(|(read_bl_len, c_size_mult, c_size)| Capacity { read_bl_len, c_size_mult, c_size })
            .boxed()
    }
}

pub fn timing_strategy(near_budget: bool) -> BoxedStrategy<Timing> {
    let big = if near_budget { prop_oneof![4 => (0u16..40), 1 => (9_990u16..9_999)].boxed() } else { (0u16..40).boxed() };
    (
        0u8..9,
        big.clone(),
        // busy after a data block: short, none, or long but inside the 50,000-poll write budget
        prop_oneof![6 => (0u16..60), 2 => Just(0u16), 1 => (10_001u16..49_000)],
        // busy after CMD12 / the stop token: the driver only waits for it with the command
        // budget (10,000 polls) of the *next* command, so that is the bound here
        prop_oneof![8 => (0u16..60), 1 => (9_000u16..9_990)],
        prop_oneof![9 => (0u16..6), 1 => (10_001u16..10_040)],
        prop_oneof![4 => Just(0u8), 1 => (1u8..3)],
        prop_oneof![3 => Just(0u8), 1 => Just(0x20u8), 1 => Just(0x01u8), 1 => Just(0x08u8), 1 => Just(0x29u8)],
        prop::bool::weighted(0.15),
        // busy after the stop token of a multi-block write: as after any other data block
        (prop_oneof![6 => (0u16..60), 2 => Just(0u16), 2 => (10_001u16..49_000)], any::<bool>(), any::<bool>(), any::<bool>(), any::<bool>(), any::<bool>()),
    )
        .prop_map(|(ncr, token_delay, busy_write, busy_stop, init_polls, cmd0_ignored, ocr_extra, sluggish, (busy_stop_write, stop_gap, sticky_status, nwr_gap, nrc_gap, oor_status_only))| Timing {
            ncr,
            token_delay,
            busy_write,
            busy_stop,
            init_polls,
            // a sluggish card ignores more CMD0 frames than a host with a small budget sends
            cmd0_ignored: if sluggish { cmd0_ignored + 3 } else { cmd0_ignored },
            ocr_extra,
            sluggish,
            busy_stop_write,
            stop_gap,
            sticky_status,
            nwr_gap,
            nrc_gap,
            oor_status_only,
        })
        .boxed()
}

pub fn block_sel() -> impl Strategy<Value = BlockSel> {
    prop_oneof![
        2 => Just(BlockSel::Zero), 1 => Just(BlockSel::One), 2 => Just(BlockSel::Last), 2 => any::<u8>().prop_map(BlockSel::LastMinus),
        2 => any::<u8>().prop_map(BlockSel::Pow2), 2 => any::<u8>().prop_map(BlockSel::Pow2Minus1), 2 => any::<u32>().prop_map(BlockSel::High),
        4 => any::<u16>().prop_map(BlockSel::Frac),
    ]
}

pub fn call_strategy() -> impl Strategy<Value = SdCall> {
    let n = prop_oneof![5 => Just(1u8), 4 => (2u8..9), 1 => Just(64u8)];
    prop_oneof![
        6 => (block_sel(), n.clone()).prop_map(|(block, n)| SdCall::Read { block, n }),
        7 => (block_sel(), n.clone(), any::<u32>()).prop_map(|(block, n, seed)| SdCall::Write { block, n, seed }),
        5 => (any::<u16>(), n).prop_map(|(which, n)| SdCall::ReadBack { which, n }),
        1 => Just(SdCall::NumBlocks),
        1 => Just(SdCall::NumBytes),
        1 => Just(SdCall::CardType),
        1 => Just(SdCall::MarkUninit),
        1 => (any::<bool>(), any::<u8>(), 1u8..4, any::<u32>()).prop_map(|(write, past, n, seed)| SdCall::Beyond { write, past, n, seed }),
    ]
}

pub fn case_strategy(with_faults: bool, near_budget: bool) -> BoxedStrategy<SdCase> {
    kind_strategy()
        .prop_flat_map(move |kind| {
            (
                Just(kind),
                any::<bool>(),
                prop_oneof![4 => (1u8..5), 1 => Just(50u8)],
                capacity_strategy(kind),
                timing_strategy(near_budget),
                prop_oneof![6 => any::<u32>(), 1 => Just(0u32), 1 => Just(1u32)],
                prop::collection::vec(call_strategy(), 1..if with_faults { 12 } else { 40 }),
                if with_faults { fault_strategy().prop_map(|f| vec![f]).boxed() } else { Just(vec![]).boxed() },
            )
        })
        .prop_map(|(kind, use_crc, acquire_retries, cap, timing, bg_seed, calls, faults)| SdCase { kind, use_crc, acquire_retries, cap, timing, bg_seed, calls, faults })
        .boxed()
}

pub fn fault_strategy() -> impl Strategy<Value = Fault> {
    prop_oneof![
        4 => (0u16..6, 0u16..4112).prop_map(|(nth_read, bit)| Fault::FlipBit { nth_read, bit }),
        2 => (0u16..6, 0u16..4096, any::<u16>()).prop_map(|(nth_read, bit, pattern)| Fault::Burst { nth_read, bit, pattern }),
        2 => (0u16..6, prop_oneof![Just(0xFCu8), Just(0x0Fu8), Just(0x01u8), Just(0x00u8), Just(0xFDu8), any::<u8>().prop_map(|x| if x == 0xFE || x == 0xFF { 0x7E } else { x })]).prop_map(|(nth_read, token)| Fault::WrongToken { nth_read, token }),
        2 => (0u16..8, prop_oneof![Just(0x0Bu8), Just(0x0Du8), Just(0x00u8), Just(0x1Fu8)]).prop_map(|(nth_write, code)| Fault::RejectWrite { nth_write, code }),
        2 => (0u16..4, prop_oneof![Just(0u8), Just(0x04u8), Just(0x40u8)], prop_oneof![Just(0u8), Just(0x01u8), Just(0x80u8), Just(0x04u8)]).prop_map(|(nth_write, r1, status)| Fault::WriteStatus { nth_write, r1, status }),
        // positions: early, anywhere in the first calls, and around the driver's 10,000-poll budgets
        3 => prop_oneof![3 => (0u32..200), 3 => (0u32..5000), 1 => (9_950u32..10_060), 1 => (19_950u32..20_100)].prop_map(|at| Fault::DeadFrom { at }),
        3 => prop_oneof![3 => (0u32..200), 3 => (0u32..5000), 1 => (9_950u32..10_060), 1 => (19_950u32..20_100)].prop_map(|at| Fault::BusyFrom { at }),
        3 => (prop_oneof![(0u32..200), (0u32..5000)], any::<u32>()).prop_map(|(at, seed)| Fault::GarbageFrom { at, seed }),
        3 => (prop_oneof![3 => (0u32..200), 3 => (0u32..5000), 1 => (9_950u32..10_060)], prop_oneof![4 => (0x80u8..0xFF), 1 => Just(0x01u8), 1 => Just(0x7Fu8), 1 => Just(0x55u8), 1 => any::<u8>()]).prop_map(|(at, value)| Fault::StuckFrom { at, value }),
        3 => prop_oneof![(0u32..60), (0u32..2000)].prop_map(|nth_transaction| Fault::SpiError { nth_transaction }),
        1 => prop_oneof![Just(0x00u8), Just(0xFFu8), Just(0x55u8), any::<u8>()].prop_map(|echo| Fault::WrongCmd8Echo { echo }),
    ]
}

/// Every single-bit flip position of one data block + CRC, for each card kind, CRC on.
pub fn enumerate_bit_flips(acc: &mut Acc, test: &dyn Fn(&SdCase, &mut Acc) -> Result<(), Failure>) -> Option<(Failure, serde_json::Value)> {
    for kind in [Kind::V1Sc, Kind::V2Sc, Kind::V2Hc] {
        let cap = if kind == Kind::V2Hc { Capacity { read_bl_len: 9, c_size_mult: 0, c_size: 0x1010 } } else { Capacity { read_bl_len: 9, c_size_mult: 7, c_size: 2047 } };
        for bit in 0..4112u16 {
            let c = SdCase {
                kind,
                use_crc: true,
                acquire_retries: 2,
                cap: cap.clone(),
                timing: Timing { ncr: (bit % 9) as u8, token_delay: bit % 5, busy_write: 3, busy_stop: 2, init_polls: 1, cmd0_ignored: 0, ocr_extra: 0, sluggish: false, busy_stop_write: 0, stop_gap: false, sticky_status: false, nwr_gap: false, nrc_gap: false, oor_status_only: false },
                bg_seed: 77 + bit as u32,
                calls: vec![SdCall::Write { block: BlockSel::Exact(5), n: 1, seed: bit as u32 }, SdCall::Read { block: BlockSel::Exact(5), n: 1 }, SdCall::Read { block: BlockSel::Exact(5), n: 1 }],
                faults: vec![Fault::FlipBit { nth_read: 0, bit }],
            };
            acc.evaluations += 1;
            acc.class("enumerated-bit-flips");
            if let Err(f) = test(&c, acc) {
                return Some((f, serde_json::to_value(&c).unwrap()));
            }
        }
    }
    // an SPI bus error at every transaction of identification and of the first transfers
    for kind in [Kind::V1Sc, Kind::V2Sc, Kind::V2Hc] {
        let cap = if kind == Kind::V2Hc { Capacity { read_bl_len: 9, c_size_mult: 0, c_size: 0x1010 } } else { Capacity { read_bl_len: 9, c_size_mult: 7, c_size: 2047 } };
        for use_crc in [false, true] {
            for (ti, init_polls) in [0u16, 2].into_iter().enumerate() {
                for nth in 0..200u32 {
                    let c = SdCase {
                        kind,
                        use_crc,
                        acquire_retries: 2,
                        cap: cap.clone(),
                        timing: Timing { ncr: ti as u8, token_delay: 1, busy_write: 2, busy_stop: 1, init_polls, cmd0_ignored: 0, ocr_extra: 0, sluggish: false, busy_stop_write: 0, stop_gap: false, sticky_status: false, nwr_gap: false, nrc_gap: false, oor_status_only: false },
                        bg_seed: 5 + nth,
                        calls: vec![
                            SdCall::Read { block: BlockSel::Zero, n: 1 },
                            SdCall::Read { block: BlockSel::Zero, n: 1 },
                            SdCall::Write { block: BlockSel::Exact(5), n: 1, seed: nth },
                            SdCall::Read { block: BlockSel::Exact(5), n: 2 },
                        ],
                        faults: vec![Fault::SpiError { nth_transaction: nth }],
                    };
                    acc.evaluations += 1;
                    acc.class("enumerated-spi-error-positions");
                    if let Err(f) = test(&c, acc) {
                        return Some((f, serde_json::to_value(&c).unwrap()));
                    }
                }
            }
        }
    }
    // the card stops answering / stays busy / answers garbage / holds the line from every byte
    // position of identification and of the first transfer on
    for kind in [Kind::V1Sc, Kind::V2Sc, Kind::V2Hc] {
        let cap = if kind == Kind::V2Hc { Capacity { read_bl_len: 9, c_size_mult: 0, c_size: 0x1010 } } else { Capacity { read_bl_len: 9, c_size_mult: 7, c_size: 2047 } };
        for at in 0..700u32 {
            for which in 0..4u32 {
                let fault = match which {
                    0 => Fault::DeadFrom { at },
                    1 => Fault::BusyFrom { at },
                    2 => Fault::GarbageFrom { at, seed: at.wrapping_mul(2654435761) },
                    _ => Fault::StuckFrom { at, value: 0x80 | (at as u8 & 0x7E) },
                };
                let c = SdCase {
                    kind,
                    use_crc: at % 2 == 1,
                    acquire_retries: 2,
                    cap: cap.clone(),
                    timing: Timing { ncr: (at % 3) as u8, token_delay: 1, busy_write: 2, busy_stop: 1, init_polls: (at % 2) as u16, cmd0_ignored: 0, ocr_extra: 0, sluggish: false, busy_stop_write: 0, stop_gap: false, sticky_status: false, nwr_gap: false, nrc_gap: false, oor_status_only: false },
                    bg_seed: 9 + at,
                    calls: vec![SdCall::Read { block: BlockSel::Zero, n: 1 }, SdCall::Read { block: BlockSel::Zero, n: 1 }, SdCall::Write { block: BlockSel::Exact(5), n: 1, seed: at }, SdCall::Read { block: BlockSel::Exact(5), n: 1 }],
                    faults: vec![fault],
                };
                acc.evaluations += 1;
                acc.class("enumerated-misbehaviour-positions");
                if let Err(f) = test(&c, acc) {
                    return Some((f, serde_json::to_value(&c).unwrap()));
                }
            }
        }
    }
    // every single-bit corruption of the CSD register while CRC checking is off: the
    // capacity may come out wrong, but the call must return
    for kind in [Kind::V1Sc, Kind::V2Sc, Kind::V2Hc] {
        for cap in [Capacity { read_bl_len: 9, c_size_mult: 0, c_size: 0 }, Capacity { read_bl_len: 11, c_size_mult: 7, c_size: 4095 }, Capacity { read_bl_len: 9, c_size_mult: 3, c_size: 0x3F_FEFF }] {
            for bit in 0..144u16 {
                for call in [SdCall::NumBlocks, SdCall::NumBytes] {
                    let c = SdCase {
                        kind,
                        use_crc: false,
                        acquire_retries: 2,
                        cap: cap.clone(),
                        timing: Timing { ncr: 1, token_delay: 1, busy_write: 0, busy_stop: 0, init_polls: 0, cmd0_ignored: 0, ocr_extra: 0, sluggish: false, busy_stop_write: 0, stop_gap: false, sticky_status: false, nwr_gap: false, nrc_gap: false, oor_status_only: false },
                        bg_seed: 3,
                        calls: vec![call, SdCall::Read { block: BlockSel::Zero, n: 1 }],
                        faults: vec![Fault::FlipBit { nth_read: 0, bit }],
                    };
                    acc.evaluations += 1;
                    acc.class("enumerated-csd-bit-flips");
                    if let Err(f) = test(&c, acc) {
                        return Some((f, serde_json::to_value(&c).unwrap()));
                    }
                }
            }
        }
    }
    None
}
