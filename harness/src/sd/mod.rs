pub mod card;
pub mod engine;
