//! Reference 8.3 grammar, written from the FAT specification and the crate's
//! documentation, independent of the crate's parser.

#[derive(Clone, Copy, Debug, PartialEq, Eq)]
pub enum RefName {
    /// valid; the 11 bytes (ASCII upper-cased, Latin-1 left as typed)
    Valid([u8; 11]),
    Invalid,
    /// the documentation does not decide (DEL character)
    DontCare,
}

pub fn forbidden_punct(c: char) -> bool {
    matches!(
        c,
        '"' | '*' | '+' | ',' | '/' | ':' | ';' | '<' | '=' | '>' | '?' | '[' | '\\' | ']' | '|'
    )
}

/// `base{1,8} ('.' ext{0,3})?` over ISO-8859-1 minus controls, space, the 15
/// forbidden marks and '.', plus the special spellings "", "." and "..".
pub fn ref_parse(s: &str) -> RefName {
    let mut n = [b' '; 11];
    if s.is_empty() || s == "." {
        n[0] = b'.';
        return RefName::Valid(n);
    }
    if s == ".." {
        n[0] = b'.';
        n[1] = b'.';
        return RefName::Valid(n);
    }
    let mut dontcare = false;
    let mut parts = s.split('.');
    let base = parts.next().unwrap_or("");
    let ext = parts.next();
    if parts.next().is_some() {
        return RefName::Invalid;
    }
    let check = |part: &str, dc: &mut bool| -> Option<Vec<u8>> {
        let mut v = Vec::new();
        for c in part.chars() {
            let cp = c as u32;
            if cp > 0xFF || cp <= 0x20 || forbidden_punct(c) {
                return None;
            }
            if cp == 0x7F {
                *dc = true;
            }
            // "upper-cases them": every letter of ISO-8859-1 that has an upper-case partner in it
            v.push(latin1_upper(cp as u8));
        }
        Some(v)
    };
    let Some(b) = check(base, &mut dontcare) else { return RefName::Invalid };
    if b.is_empty() || b.len() > 8 {
        return RefName::Invalid;
    }
    n[..b.len()].copy_from_slice(&b);
    if let Some(ext) = ext {
        let Some(e) = check(ext, &mut dontcare) else { return RefName::Invalid };
        if e.len() > 3 {
            return RefName::Invalid;
        }
        n[8..8 + e.len()].copy_from_slice(&e);
    }
    if dontcare {
        RefName::DontCare
    } else {
        RefName::Valid(n)
    }
}

/// Latin-1 upper-casing of one byte (for the tolerance on Latin-1 letters).
pub fn latin1_upper(b: u8) -> u8 {
    match b {
        b'a'..=b'z' => b - 32,
        0xE0..=0xF6 | 0xF8..=0xFE => b - 32,
        _ => b,
    }
}

pub fn same_name_mod_latin1(a: &[u8; 11], b: &[u8; 11]) -> bool {
    a.iter().zip(b.iter()).all(|(x, y)| x == y || latin1_upper(*x) == latin1_upper(*y))
}

pub const INVALID_NAMES: &[&str] = &[
    "TOOLONGNAME.TXT",
    "A.BCDE",
    "A B",
    "A*B",
    ".A",
    "\u{100}",
    "A\u{1}",
    "A.B.C",
    "AB?.TXT",
    "NINECHARS",
    "A:B",
    "\u{20ac}.X",
    "A..B",
];

pub fn display_name(n: &[u8; 11]) -> String {
    let mut s = String::new();
    for (i, c) in n.iter().enumerate() {
        if *c != b' ' {
            if i == 8 {
                s.push('.');
            }
            // a stored 0x05 in the first position stands for 0xE5 (FAT specification)
            let c = if i == 0 && *c == 0x05 { 0xE5 } else { *c };
            s.push(c as char);
        }
    }
    s
}
