//! Entry points for the coverage-guided fuzz targets (/verif/fuzz). The
//! fuzzer's bytes are decoded *structurally* into the same case types the
//! proptest engines use (one byte or two per decision, zeros when the input
//! runs out), so a local mutation of the input is a local mutation of the
//! case, and the same oracle runs inside the target.
//!
//! (proptest's pass-through RNG cannot be used for this: every `prop_flat_map`
//! halves the remaining stream, and once it runs dry the unbiased range
//! sampling of rand 0.9 rejects the resulting zeros for ever.)

use crate::engines::dirgen::{Broken, DirCase, Item};
use crate::engines::mount::{MountCase, FIELDS};
use crate::engines::{crash, dirgen, faults, fsx, mount};
use crate::gen::{name11, NAME_POOL};
use crate::interp::Case;
use crate::mkfs::{DiskSpec, FsInfoKind, Slot, Times, Usable, VolGeom, VolSpec};
use crate::ops::{LenSel, NameSel, Op, PosSel, Step};
use crate::runner::{self, is_open_known, Acc, Failure, KnownFinding};
use crate::sd::card::{Capacity, Fault, Kind, Timing};
use crate::sd::engine::{self as sde, BlockSel, SdCall, SdCase};
use serde::Serialize;
use std::cell::RefCell;

pub struct Dec<'a> {
    d: &'a [u8],
    p: usize,
}

impl<'a> Dec<'a> {
    pub fn new(d: &'a [u8]) -> Dec<'a> {
        Dec { d, p: 0 }
    }
    pub fn done(&self) -> bool {
        self.p >= self.d.len()
    }
    pub fn u8(&mut self) -> u8 {
        let v = self.d.get(self.p).copied().unwrap_or(0);
        self.p += 1;
        v
    }
    pub fn u16(&mut self) -> u16 {
        u16::from_le_bytes([self.u8(), self.u8()])
    }
    pub fn u32(&mut self) -> u32 {
        u32::from_le_bytes([self.u8(), self.u8(), self.u8(), self.u8()])
    }
    pub fn pick<T: Clone>(&mut self, v: &[T]) -> T {
        v[self.u8() as usize % v.len()].clone()
    }
    pub fn bool(&mut self) -> bool {
        self.u8() & 1 == 1
    }
}

fn times(d: &mut Dec) -> Times {
    let x = d.u8();
    if x % 5 == 0 {
        Times { cdate: 0, ctime: 0, ctenths: 0, mdate: 0x2A21, mtime: 0, adate: 0 }
    } else {
        Times { cdate: 0x2A21 + (x as u16 % 20), ctime: (x as u16) << 5, ctenths: x % 200, mdate: 0x2C42, mtime: (x as u16) << 3 & 0xBF7D, adate: 0x2A21 }
    }
}

fn geom(d: &mut Dec) -> VolGeom {
    let fat32 = d.bool();
    let spc = d.pick(&[1u8, 1, 2, 2, 4, 8, 16, 64, 128]);
    let clusters = if fat32 {
        d.pick(&[65525u32, 65526, 65527, 65533, 65534, 65600, 65662, 66000, 66100, 70000])
    } else {
        d.pick(&[4085u32, 4086, 4087, 4094, 4095, 4222, 5000, 65524, 65523, 8190])
    };
    let fs = d.u8();
    let fsinfo = match fs % 6 {
        0 | 1 => FsInfoKind::Correct,
        2 => FsInfoKind::Unknown,
        3 => FsInfoKind::Stale { count: 0, next: d.pick(&[0u32, 1, 2, 70000, 0xFFFF_FFFF]) },
        4 => FsInfoKind::Stale { count: clusters, next: clusters + 1 },
        _ => FsInfoKind::Stale { count: d.u32(), next: d.u32() },
    };
    let mut g = VolGeom {
        fat32,
        spc,
        reserved: if fat32 { d.pick(&[32u16, 32, 3, 9, 256, 40]) } else { d.pick(&[1u16, 1, 2, 8, 256]) },
        num_fats: d.pick(&[1u8, 2, 2]),
        root_entries: d.pick(&[0u16, 16, 32, 40, 112, 512]),
        clusters,
        fat_slack: d.pick(&[0u16, 0, 0, 1, 3]),
        tail_slack: d.u8(),
        total16: d.bool(),
        fsinfo_sector: d.pick(&[1u16, 1, 2, 7]),
        root_late: d.u8() % 4 == 0,
        fsinfo,
        part_type: d.pick(&crate::mkfs::VALID_PART_TYPES),
        gap_before: d.pick(&[0u16, 0, 7, 63, 2047]),
        hi_nibbles: d.u8() % 3 == 0,
        label: d.bool(),
    };
    crate::mkfs::normalise(&mut g);
    g
}

fn tree(d: &mut Dec, cb: u32, depth: u32) -> Vec<Slot> {
    let n = d.u8() as usize % if depth == 0 { 7 } else { 4 };
    let mut v = Vec::new();
    for _ in 0..n {
        let k = d.u8();
        let name = name11(NAME_POOL[d.u8() as usize % NAME_POOL.len()]);
        match k % 8 {
            0 if depth < 2 => v.push(Slot::Dir {
                name,
                attr: 0x10,
                children: tree(d, cb, depth + 1),
                extra: match d.u8() % 8 {
                    // 0x80 | k: the k extra clusters are filled with entries as well (see mkfs::dir_geometry)
                    k @ 0..=2 => k,
                    k @ 3..=5 => 0x80 | (k - 2),
                    _ => 0,
                },
                pad_free: match d.u8() % 5 {
                    0 => Some(0),
                    1 => Some(1),
                    2 => Some(2),
                    _ => None,
                },
                times: times(d),
                pre: vec![],
            }),
            1 => {
                let mut r = [0u8; 32];
                r[0] = 0xE5;
                r[1..11].copy_from_slice(&name[1..11]);
                r[11] = 0x20;
                v.push(Slot::Raw(vec![r]));
            }
            _ => {
                let sz = d.u8();
                let size = match sz % 8 {
                    0 => 0,
                    1 => 1 + d.u8() as u32,
                    2 => 512,
                    3 => cb,
                    4 => cb + 1,
                    5 => cb - 1,
                    6 => (2 * cb + d.u16() as u32 % cb).min(70_000),
                    _ => (d.u16() as u32 % (3 * cb)).min(70_000),
                };
                let name2 = name;
                let pre = if d.u8() % 4 == 0 { crate::mkfs::lfn_run(&"a long file name.txt".encode_utf16().collect::<Vec<u16>>(), crate::mkfs::lfn_checksum(&name2)) } else { vec![] };
                v.push(Slot::File { name, attr: d.pick(&[0x20u8, 0x20, 0x00, 0x21, 0x22, 0x26]), size, seed: d.u16() as u32, extra: d.u8() % 4 / 3, times: times(d), pre });
            }
        }
    }
    crate::gen::dedupe(v)
}

fn vol(d: &mut Dec) -> VolSpec {
    let g = geom(d);
    let cb = g.spc as u32 * 512;
    let fa = d.u8();
    let usable = Usable {
        all: d.u8() % 5 == 0,
        low: 8 + d.u8() as u16 % 120,
        mid: d.u8() as u16 % 40,
        high: d.u8() as u16 % 24,
        free_after: if fa % 3 == 0 { None } else { Some(fa as u16 % 14) },
        frag_seed: d.u16() as u32,
        fragmented: d.bool(),
    };
    let root = tree(d, cb, 0);
    VolSpec {
        geom: g,
        usable,
        root,
        root_pad_free: match d.u8() % 6 {
            0 => Some(0),
            1 => Some(1),
            2 => Some(3),
            _ => None,
        },
        root_extra: d.u8() % 3,
        stale: d.bool(),
    }
}

fn name_sel(d: &mut Dec) -> NameSel {
    match d.u8() % 8 {
        0 | 1 => NameSel::Existing(d.u16()),
        2 => NameSel::ExistingDir(d.u16()),
        3 | 4 => NameSel::Pool(d.u8()),
        5 => NameSel::Deleted(d.u16()),
        6 => NameSel::Invalid(d.u8()),
        _ => {
            if d.bool() {
                NameSel::Dot
            } else {
                NameSel::DotDot
            }
        }
    }
}

fn len_sel(d: &mut Dec) -> LenSel {
    match d.u8() % 9 {
        0 => LenSel::Zero,
        1 => LenSel::One,
        2 | 3 => LenSel::Small(d.u16()),
        4 => LenSel::Around512(d.u8() as i8),
        5 => LenSel::Blocks(d.u8()),
        6 => LenSel::AroundCluster(d.u8() as i8),
        7 => LenSel::MultiCluster(d.u8(), d.u8() as i8),
        _ => LenSel::Frac(d.u16()),
    }
}

fn pos_sel(d: &mut Dec) -> PosSel {
    match d.u8() % 9 {
        0 => PosSel::Zero,
        1 => PosSel::Len,
        2 => PosSel::LenPlus1,
        3 => PosSel::Max,
        4 | 5 => PosSel::Frac(d.u16()),
        6 => PosSel::BlockAligned(d.u16()),
        7 => PosSel::ClusterAligned(d.u8()),
        _ => PosSel::Abs(d.u32()),
    }
}

fn step(d: &mut Dec) -> Step {
    let k = d.u8();
    let op = match k % 32 {
        0 => Op::OpenVolume { slot: d.u8() % 5 },
        1 => Op::CloseVolume { v: d.u16() },
        2 => Op::OpenRoot { v: d.u16() },
        3 => Op::OpenDir { d: d.u16(), name: name_sel(d) },
        4 => Op::ChangeDir { d: d.u16(), name: name_sel(d) },
        5 => Op::CloseDir { d: d.u16() },
        6 | 7 | 8 => Op::Open { d: d.u16(), name: name_sel(d), mode: d.u8() % 6 },
        9 | 10 => Op::Close { f: d.u16(), drop_only: d.u8() % 5 == 0 },
        11 => Op::Flush { f: d.u16() },
        12 | 13 | 14 => Op::Read { f: d.u16(), len: len_sel(d) },
        15 | 16 | 17 | 18 => Op::Write { f: d.u16(), len: len_sel(d), seed: d.u16() as u32 },
        19 => Op::SeekStart { f: d.u16(), to: pos_sel(d) },
        20 => Op::SeekCur { f: d.u16(), to: pos_sel(d), raw: None },
        21 => Op::SeekEnd { f: d.u16(), back: pos_sel(d) },
        22 => Op::IoSeek { f: d.u16(), whence: d.u8(), to: pos_sel(d), raw: if d.u8() % 8 == 0 { Some(d.pick(&[i64::MIN, i64::MAX, -1, 1, 1 << 32])) } else { None } },
        23 => Op::Query { f: d.u16() },
        24 => Op::Delete { d: d.u16(), name: name_sel(d) },
        25 => Op::Mkdir { d: d.u16(), name: name_sel(d) },
        26 => Op::Find { d: d.u16(), name: name_sel(d) },
        27 => {
            if d.bool() {
                Op::List { d: d.u16() }
            } else {
                Op::ListLfn { d: d.u16(), cap: d.u16() % 800 }
            }
        }
        28 => Op::HasOpen,
        29 => Op::Stale { kind: d.u8(), which: d.u16(), method: 0 },
        30 => Op::Reenter { d: d.u16(), lfn: d.bool(), method: 0, at: d.u8() },
        _ => {
            match d.u8() % 8 {
                0 | 1 => Op::Remount,
                2 => Op::LongHistory { which: d.u16(), back: d.u8() % 4 },
                _ => Op::CheckAll,
            }
        }
    };
    Step { op, surf: d.u8(), tick: 1 + d.u8() as u32 * 37 }
}

pub fn decode_case(data: &[u8], prop: &str) -> Case {
    let mut d = Dec::new(data);
    let cfg = d.pick(&[0u8, 0, 4, 11, 6, 1]);
    let id_offset = if d.u8() % 4 == 0 { u32::MAX - d.u8() as u32 % 50 } else { d.u16() as u32 };
    let two = d.u8() % 4 == 0;
    let s0 = d.u8() as usize % 3;
    let mut vols: Vec<Option<VolSpec>> = vec![None, None, None, None];
    vols[s0] = Some(vol(&mut d));
    if two {
        vols[3] = Some(vol(&mut d));
    }
    let mut steps = Vec::new();
    let max = if matches!(prop, "C09" | "C10" | "C11") { 24 } else { 70 };
    while !d.done() && steps.len() < max {
        let s = step(&mut d);
        // keep each target inside its engine's domain
        let keep = match prop {
            "C01" => !matches!(s.op, Op::Stale { .. } | Op::Reenter { .. }),
            "C09" | "C10" | "C11" => !matches!(s.op, Op::Stale { .. } | Op::Reenter { .. } | Op::Remount),
            "C04" => !matches!(s.op, Op::Remount | Op::Stale { .. } | Op::Reenter { .. }),
            _ => true,
        };
        if keep {
            steps.push(s);
        }
    }
    Case { cfg, id_offset, clock0: 1000, disk: DiskSpec { vols, guard: 8 }, steps }
}

pub fn decode_mount(data: &[u8]) -> MountCase {
    let mut d = Dec::new(data);
    match d.u8() % 4 {
        0 => {
            let n = 1 + d.u8() as usize % 3;
            let edits = (0..n)
                .map(|_| {
                    let f = FIELDS[d.u8() as usize % FIELDS.len()];
                    let v = match d.u8() % 6 {
                        0 => 0,
                        1 => 1,
                        2 => u32::MAX,
                        3 => u32::MAX - 1,
                        _ => d.u32(),
                    };
                    (f.0, f.1, f.2, v)
                })
                .collect();
            MountCase::Fields { base: d.u8(), edits }
        }
        1 => {
            let base = d.u8();
            let n = 1 + d.u8() as usize % 8;
            MountCase::Mutate { base, muts: (0..n).map(|_| (d.u8() % 3, d.u16() % 512, d.u8())).collect() }
        }
        2 => {
            let delta = d.u32();
            let base = d.u8();
            let n = d.u8() as usize % 3;
            let edits = (0..n)
                .map(|_| {
                    let f = FIELDS[d.u8() as usize % FIELDS.len()];
                    (f.0, f.1, f.2, d.u32())
                })
                .collect();
            let mbr_len = match d.u8() % 5 {
                0 => Some(0),
                1 => Some(1),
                2 => Some(d.u32()),
                _ => None,
            };
            MountCase::HighLba { delta: if d.bool() { delta % 4 } else { delta }, base, edits, mbr_len }
        }
        _ => {
            let sigs = d.bool();
            let rest = &data[d.p.min(data.len())..];
            let third = rest.len() / 3;
            MountCase::Random { mbr: rest[..third].to_vec(), boot: rest[third..2 * third].to_vec(), info: rest[2 * third..].to_vec(), sigs }
        }
    }
}

fn units(d: &mut Dec) -> Vec<u16> {
    let n = 1 + d.u8() as usize % 30;
    (0..n)
        .map(|_| match d.u8() % 8 {
            0 => 0xD800 + d.u8() as u16,
            1 => 0xDC00 + d.u8() as u16,
            2 => 0xFFFF,
            3 => 0x3042 + d.u8() as u16,
            _ => 0x20 + d.u8() as u16 % 0x5F,
        })
        .collect()
}

pub fn decode_dir(data: &[u8]) -> DirCase {
    let mut d = Dec::new(data);
    let g = geom(&mut d);
    let mut items = |d: &mut Dec, max: usize| -> Vec<Item> {
        let n = d.u8() as usize % max;
        (0..n)
            .map(|_| {
                let name = name11(NAME_POOL[d.u8() as usize % NAME_POOL.len()]);
                match d.u8() % 16 {
                    14 => Item::NamedLabel { name: match d.u8() % 8 { 0 => *b".          ", 1 => *b"..         ", _ => name } },
                    15 => {
                        let n = 1 + d.u8() as usize % 5;
                        let frags = (0..n).map(|_| (d.pick(&[0x41u8, 0x42, 0x43, 0x01, 0x02, 0x03, 0x40, 0xC1, 0x81, 0x61, 0x21, 0x54, 0x55, 0x14]), d.u8() % 5 != 0, d.u8(), d.u16())).collect();
                        Item::FragSoup { frags, name }
                    }
                    12 => {
                        if d.u8() % 4 == 0 {
                            Item::End
                        } else {
                            Item::Deleted { name, rest: [d.u8(); 20] }
                        }
                    }
                    13 => Item::WildDir { name, cluster: d.pick(&[1u32, 0x0FFF_FFF0, 0xFFFF_FFF0, 0xFFF7, 0xFFFF, 0x4000_0000, 350_000, 0x0001_0003]) ^ (d.u8() as u32 % 4) },
                    0 | 1 | 2 => Item::Short { name, attr: d.pick(&[0x20u8, 0, 0x21, 0x26]), size: d.u16() as u32 % 3000, seed: d.u8() as u32, dir: d.u8() % 5 == 0 },
                    3 => Item::Deleted { name, rest: [d.u8(); 20] },
                    4 | 5 => Item::LfnGood { units: units(d), name, size: d.u8() as u32, seed: 1 },
                    6 | 7 => {
                        let kind = d.pick(&[Broken::WrongCsum, Broken::Gap, Broken::Dup, Broken::MissingFirst, Broken::MissingLast, Broken::Reordered, Broken::DeletedBetween, Broken::MixedCsum, Broken::TwentyFragments, Broken::HighOrdinal]);
                        Item::LfnBroken { kind, units: units(d), name }
                    }
                    8 => Item::CsumTwin { name },
                    9 => Item::Orphan { units: units(d) },
                    10 => Item::LfnSpelling { tail: 0x4242 },
                    _ => {
                        let mut r = [0u8; 32];
                        for x in r.iter_mut() {
                            *x = d.u8();
                        }
                        Item::Junk(r)
                    }
                }
            })
            .collect()
    };
    let root_items = items(&mut d, 12);
    let sub_items = items(&mut d, 40);
    DirCase {
        geom: g,
        usable: Usable { all: false, low: 150, mid: d.u8() as u16 % 40, high: d.u8() as u16 % 20, free_after: None, frag_seed: d.u16() as u32, fragmented: d.bool() },
        root_items,
        sub_items,
        sub_extra: d.u8(),
        root_extra: d.u8(),
        root_pad: match d.u8() % 5 {
            0 => Some(0),
            1 => Some(1),
            _ => None,
        },
        lfn_cap: d.pick(&[780u16, 780, 0, 13, 40, 64, 255]),
        ops: {
            let n = d.u8() as usize % 12;
            (0..n).map(|_| (d.u8() % 3, d.u8(), d.bool())).collect()
        },
        cfg: d.pick(&[0u8, 11]),
    }
}

pub fn decode_sd(data: &[u8], with_fault: bool) -> SdCase {
    let mut d = Dec::new(data);
    let kind = d.pick(&[Kind::V1Sc, Kind::V2Sc, Kind::V2Hc]);
    let cap = if kind == Kind::V2Hc {
        Capacity { read_bl_len: 9, c_size_mult: 0, c_size: d.pick(&[0u32, 1, 0x1010, 0xFFFF, 0x10000, 0x3F_FEFF, 0x1D_FFFF]) }
    } else {
        Capacity { read_bl_len: d.pick(&[9u8, 10, 11]), c_size_mult: d.u8() % 8, c_size: d.pick(&[0u32, 1, 2047, 4095, 300]) }
    };
    let timing = Timing {
        ncr: d.u8() % 9,
        token_delay: d.u8() as u16 % 40,
        busy_write: d.pick(&[0u16, 1, 7, 59, 12_000]),
        busy_stop: d.pick(&[0u16, 1, 5, 59, 9_500]),
        init_polls: d.pick(&[0u16, 1, 5, 10_003]),
        cmd0_ignored: d.pick(&[0u8, 0, 0, 1, 2]),
        ocr_extra: d.pick(&[0u8, 0, 0x20, 0x01, 0x29]),
        sluggish: false,
        busy_stop_write: 0,
        stop_gap: false,
        sticky_status: false,
        nwr_gap: false,
        nrc_gap: false,
        oor_status_only: false,
    };
    let mut timing = timing;
    let use_crc = d.bool();
    let acquire_retries = d.pick(&[1u8, 2, 4, 50]);
    let fault = if with_fault {
        Some(match d.u8() % 10 {
            0 | 1 => Fault::FlipBit { nth_read: d.u8() as u16 % 6, bit: d.u16() % 4112 },
            2 => Fault::Burst { nth_read: d.u8() as u16 % 6, bit: d.u16() % 4096, pattern: d.u16() },
            3 => Fault::WrongToken { nth_read: d.u8() as u16 % 6, token: d.pick(&[0xFCu8, 0x0F, 0x01, 0x00, 0xFD]) },
            4 => Fault::RejectWrite { nth_write: d.u8() as u16 % 8, code: d.pick(&[0x0Bu8, 0x0D, 0x00, 0x1F]) },
            5 => Fault::WriteStatus { nth_write: d.u8() as u16 % 4, r1: d.pick(&[0u8, 4, 0x40]), status: d.pick(&[0u8, 1, 0x80, 4]) },
            6 => Fault::DeadFrom { at: d.u16() as u32 % 5000 },
            7 => Fault::BusyFrom { at: d.u16() as u32 % 5000 },
            8 => {
                if d.bool() {
                    Fault::GarbageFrom { at: d.u16() as u32 % 5000, seed: d.u32() }
                } else {
                    Fault::StuckFrom { at: d.u16() as u32 % 11000, value: d.u8() | 0x80 }
                }
            }
            _ => {
                if d.bool() {
                    Fault::SpiError { nth_transaction: d.u16() as u32 % 2000 }
                } else {
                    Fault::WrongCmd8Echo { echo: d.u8() }
                }
            }
        })
    } else {
        None
    };
    let mut calls = Vec::new();
    while !d.done() && calls.len() < if with_fault { 10 } else { 40 } {
        let bs = |d: &mut Dec| match d.u8() % 9 {
            0 => BlockSel::Zero,
            1 => BlockSel::One,
            2 => BlockSel::Last,
            3 => BlockSel::LastMinus(d.u8()),
            4 => BlockSel::Pow2(d.u8()),
            5 => BlockSel::Pow2Minus1(d.u8()),
            6 => BlockSel::High(d.u32()),
            _ => BlockSel::Frac(d.u16()),
        };
        let n = |d: &mut Dec| d.pick(&[1u8, 1, 1, 2, 3, 8, 64]);
        calls.push(match d.u8() % 13 {
            // transfers that start behind the last block, or on one of the last blocks and run over the end
            12 => SdCall::Beyond { write: d.bool(), past: d.u8(), n: 1 + d.u8() % 3, seed: d.u16() as u32 },
            0 | 1 | 2 => SdCall::Read { block: bs(&mut d), n: n(&mut d) },
            3 | 4 | 5 | 6 => SdCall::Write { block: bs(&mut d), n: n(&mut d), seed: d.u16() as u32 },
            7 | 8 => SdCall::ReadBack { which: d.u16(), n: n(&mut d) },
            9 => {
                if d.bool() {
                    SdCall::NumBlocks
                } else {
                    SdCall::NumBytes
                }
            }
            10 => SdCall::CardType,
            _ => SdCall::MarkUninit,
        });
    }
    if calls.is_empty() {
        calls.push(SdCall::Read { block: BlockSel::Zero, n: 1 });
    }
    // trailing bytes: a sluggish card (ignores more CMD0 frames than a small host budget sends) and
    // the kind of background (seeded, blank, erased)
    if !with_fault && d.u8() % 8 == 1 {
        timing.sluggish = true;
        timing.cmd0_ignored += 3;
    }
    if !with_fault {
        timing.busy_stop_write = d.pick(&[0u16, 0, 3, 59, 12_000, 40_000]);
        timing.stop_gap = d.bool();
        timing.sticky_status = d.bool();
        timing.nwr_gap = d.bool();
        timing.nrc_gap = d.bool();
        timing.oor_status_only = d.bool();
    }
    let bg_seed = match d.u8() % 8 {
        1 => 0,
        2 => 1,
        _ => 5,
    };
    SdCase { kind, use_crc, acquire_retries, cap, timing, bg_seed, calls, faults: fault.into_iter().collect() }
}

// ------------------------------------------------------------------ targets

thread_local! {
    static KNOWN: RefCell<Option<Vec<KnownFinding>>> = RefCell::new(None);
}

fn known() -> Vec<KnownFinding> {
    KNOWN.with(|k| {
        let mut k = k.borrow_mut();
        if k.is_none() {
            *k = Some(runner::load_known());
        }
        k.clone().unwrap()
    })
}

/// Which decoder / engine serves a property.
pub fn target_of(prop: &str) -> &'static str {
    match prop {
        "C12" | "C13" | "C14" => "sdsim",
        "C15" => "mount",
        "C06" | "C17" => "dir",
        _ => "fsx",
    }
}

/// Decode `data` for `prop` and run the oracle. On a violation returns the failure, the
/// engine name and the decoded case (the replay unit).
pub fn check_bytes(prop: &'static str, data: &[u8], acc: &mut Acc) -> Result<(), (Failure, &'static str, serde_json::Value)> {
    let known = known();
    fn pack<T: Serialize>(f: Failure, e: &'static str, c: &T) -> (Failure, &'static str, serde_json::Value) {
        (f, e, serde_json::to_value(c).unwrap())
    }
    match target_of(prop) {
        "fsx" => {
            if data.len() < 16 {
                return Ok(());
            }
            let case = decode_case(data, prop);
            let (r, engine) = match prop {
                "C09" | "C10" => (crash::run_case(&crash::cfg_for(prop), &case, acc, &known, false, false), "crash"),
                "C11" => (faults::run_case(&case, acc, &known, false, false), "faults"),
                _ => (fsx::run_case(&fsx::cfg_for(prop), &case, acc, &known, false), "fsx"),
            };
            r.map_err(|f| pack(f, engine, &case))
        }
        "mount" => {
            if data.len() < 4 {
                return Ok(());
            }
            let case = decode_mount(data);
            match mount::run_case(&case, acc, false) {
                Err(f) if !is_open_known(&known, "C15", &f.sig) => Err(pack(f, "mount", &case)),
                _ => Ok(()),
            }
        }
        "dir" => {
            if data.len() < 16 {
                return Ok(());
            }
            let case = decode_dir(data);
            match dirgen::run_case(&case, acc, prop == "C06", prop == "C17", false) {
                Err(f) if !is_open_known(&known, prop, &f.sig) => Err(pack(f, "dirgen", &case)),
                _ => Ok(()),
            }
        }
        _ => {
            if data.len() < 8 {
                return Ok(());
            }
            let case = decode_sd(data, prop == "C13");
            let r = if prop == "C13" { sde::run_c13(&case, acc) } else { sde::run_c12_c14(&case, prop, acc) };
            match r {
                Err(f) if !is_open_known(&known, prop, &f.sig) => Err(pack(f, "sdsim", &case)),
                _ => Ok(()),
            }
        }
    }
}

/// libFuzzer entry: a violation is reported (replay file + VIOLATION line) and the process
/// aborts so that the fuzzer saves the input as well.
pub fn fuzz_entry(prop: &'static str, data: &[u8]) {
    thread_local! { static HOOK: std::cell::Cell<bool> = std::cell::Cell::new(false); }
    HOOK.with(|h| {
        if !h.get() {
            runner::install_quiet_panic_hook();
            h.set(true);
        }
    });
    let mut acc = Acc::default();
    if let Err((f, engine, case)) = check_bytes(prop, data, &mut acc) {
        let path = runner::write_replay(prop, engine, &f, &case);
        println!("{}: {}", f.sig, f.detail);
        println!("VIOLATION property={} replay={}", prop, path);
        std::process::abort();
    }
}

/// One target binary serves several properties: VERIF_FUZZ_PROP selects the oracle.
pub fn prop_from_env(default: &'static str, allowed: &[&'static str]) -> &'static str {
    match std::env::var("VERIF_FUZZ_PROP") {
        Ok(p) => allowed.iter().copied().find(|a| *a == p).unwrap_or(default),
        Err(_) => default,
    }
}
