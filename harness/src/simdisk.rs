//! Simulated block device: sparse image over a background function, write log
//! with pre-images, fault plan, device-call budget.

use embedded_sdmmc::{Block, BlockCount, BlockDevice, BlockIdx};
use serde::{Deserialize, Serialize};
use std::cell::RefCell;
use std::collections::{BTreeSet, HashMap};
use std::rc::Rc;

pub type Blk = [u8; 512];

/// What an untouched block of a region contains.
#[derive(Clone, Debug, Serialize, Deserialize, PartialEq)]
pub enum Fill {
    Zero,
    /// every byte = (seed + block*7 + i*13) - recognisable foreign data
    Foreign(u8),
    /// FAT16 sector full of bad-cluster marks
    Fat16Bad,
    /// FAT32 sector full of bad-cluster marks
    Fat32Bad,
    /// 16 syntactically valid live directory entries named STALEnnn.$$$
    Stale { clusters: u32 },
}

#[derive(Clone, Debug, Serialize, Deserialize, PartialEq)]
pub struct Region {
    pub start: u32,
    pub end: u32, // exclusive
    pub fill: Fill,
}

pub const STALE_PREFIX: &[u8; 5] = b"STALE";

pub fn fill_block(fill: &Fill, block: u32) -> Blk {
    let mut b = [0u8; 512];
    match fill {
        Fill::Zero => {}
        Fill::Foreign(seed) => {
            for (i, x) in b.iter_mut().enumerate() {
                *x = seed
                    .wrapping_add((block as u8).wrapping_mul(7))
                    .wrapping_add((i as u8).wrapping_mul(13))
                    | 0x01;
            }
        }
        Fill::Fat16Bad => {
            for c in b.chunks_exact_mut(2) {
                c.copy_from_slice(&0xFFF7u16.to_le_bytes());
            }
        }
        Fill::Fat32Bad => {
            for c in b.chunks_exact_mut(4) {
                c.copy_from_slice(&0x0FFF_FFF7u32.to_le_bytes());
            }
        }
        Fill::Stale { clusters } => {
            for (i, e) in b.chunks_exact_mut(32).enumerate() {
                let n = (block.wrapping_mul(16).wrapping_add(i as u32)) % 1000;
                e[0..5].copy_from_slice(STALE_PREFIX);
                e[5] = b'0' + (n / 100) as u8;
                e[6] = b'0' + ((n / 10) % 10) as u8;
                e[7] = b'0' + (n % 10) as u8;
                e[8..11].copy_from_slice(b"$$$");
                // alternate files and directories
                e[11] = if i % 4 == 3 { 0x10 } else { 0x20 };
                let cl = 2 + (block.wrapping_mul(31).wrapping_add(i as u32 * 7)) % (*clusters).max(1);
                e[26..28].copy_from_slice(&(cl as u16).to_le_bytes());
                e[20..22].copy_from_slice(&((cl >> 16) as u16).to_le_bytes());
                // valid date 2001-01-01, time 0
                e[16..18].copy_from_slice(&0x2A21u16.to_le_bytes());
                e[24..26].copy_from_slice(&0x2A21u16.to_le_bytes());
                let size: u32 = if i % 4 == 3 { 0 } else { 100 + n };
                e[28..32].copy_from_slice(&size.to_le_bytes());
            }
        }
    }
    b
}

pub fn is_stale_name(name: &[u8]) -> bool {
    name.len() >= 11 && &name[0..5] == STALE_PREFIX && &name[8..11] == b"$$$"
}

/// A sparse disk image.
#[derive(Clone, Debug)]
pub struct Image {
    pub blocks: HashMap<u32, Box<Blk>>,
    pub regions: Vec<Region>,
    pub num_blocks: u32,
}

pub trait Img {
    fn rd(&self, block: u32) -> Blk;
    fn nblocks(&self) -> u32;
}

impl Image {
    pub fn new(num_blocks: u32) -> Image {
        Image {
            blocks: HashMap::new(),
            regions: Vec::new(),
            num_blocks,
        }
    }
    pub fn bg(&self, block: u32) -> Blk {
        for r in self.regions.iter().rev() {
            if block >= r.start && block < r.end {
                return fill_block(&r.fill, block);
            }
        }
        [0u8; 512]
    }
    pub fn wr(&mut self, block: u32, data: &Blk) {
        self.blocks.insert(block, Box::new(*data));
    }
    /// read-modify-write helper for image construction
    pub fn patch(&mut self, block: u32, off: usize, data: &[u8]) {
        let mut b = self.rd(block);
        b[off..off + data.len()].copy_from_slice(data);
        self.wr(block, &b);
    }
}

impl Img for Image {
    fn rd(&self, block: u32) -> Blk {
        match self.blocks.get(&block) {
            Some(b) => **b,
            None => self.bg(block),
        }
    }
    fn nblocks(&self) -> u32 {
        self.num_blocks
    }
}

#[derive(Debug, Clone, PartialEq, Eq)]
pub enum DevErr {
    Injected,
    OutOfRange,
}

#[derive(Clone, Debug)]
pub struct WriteRec {
    pub api: u32,
    pub dev: u64,
    pub block: u32,
    pub old: Box<Blk>,
    pub new: Box<Blk>,
}

/// Panic payload used when an API call exceeds its device-call budget.
#[derive(Debug)]
pub struct BudgetExceeded(pub u64);

#[derive(Clone, Debug, Default)]
pub struct Faults {
    /// device-call indices that fail once
    pub fail_at: BTreeSet<u64>,
    /// every device call with index >= this fails
    pub dead_from: Option<u64>,
    /// a failing read fills the buffer with garbage first
    pub scribble: bool,
}

pub struct Inner {
    pub img: Image,
    pub log: Vec<WriteRec>,
    pub log_enabled: bool,
    pub dev_calls: u64,
    pub reads: u64,
    pub writes: u64,
    pub api_call: u32,
    pub calls_this_api: u64,
    pub budget: u64,
    pub faults: Faults,
    pub faults_fired: Vec<(u64, u32, bool)>, // (dev idx, api call, was_write)
    pub oob: Vec<(u32, bool)>,
    /// per device call: (api call no, is_write, block)
    pub trace: Option<Vec<(u32, bool, u32)>>,
}

#[derive(Clone)]
pub struct SimDisk(pub Rc<RefCell<Inner>>);

impl SimDisk {
    pub fn new(img: Image) -> SimDisk {
        SimDisk(Rc::new(RefCell::new(Inner {
            img,
            log: Vec::new(),
            log_enabled: true,
            dev_calls: 0,
            reads: 0,
            writes: 0,
            api_call: 0,
            calls_this_api: 0,
            budget: 2_000_000,
            faults: Faults::default(),
            faults_fired: Vec::new(),
            oob: Vec::new(),
            trace: None,
        })))
    }
    pub fn begin_api_call(&self) -> u32 {
        let mut i = self.0.borrow_mut();
        i.api_call += 1;
        i.calls_this_api = 0;
        i.api_call
    }
    pub fn log_len(&self) -> usize {
        self.0.borrow().log.len()
    }
    pub fn dev_calls(&self) -> u64 {
        self.0.borrow().dev_calls
    }
    pub fn snapshot(&self) -> Image {
        self.0.borrow().img.clone()
    }
    pub fn rd(&self, b: u32) -> Blk {
        self.0.borrow().img.rd(b)
    }
    pub fn with_img<R>(&self, f: impl FnOnce(&Image) -> R) -> R {
        f(&self.0.borrow().img)
    }
    pub fn set_faults(&self, f: Faults) {
        self.0.borrow_mut().faults = f;
    }
    pub fn clear_faults(&self) {
        self.0.borrow_mut().faults = Faults::default();
    }
}

impl Inner {
    fn pre_call(&mut self, is_write: bool, block: u32) -> Result<(), DevErr> {
        let idx = self.dev_calls;
        self.dev_calls += 1;
        self.calls_this_api += 1;
        if is_write {
            self.writes += 1
        } else {
            self.reads += 1
        }
        if let Some(t) = self.trace.as_mut() {
            t.push((self.api_call, is_write, block));
        }
        if self.calls_this_api > self.budget {
            std::panic::panic_any(BudgetExceeded(self.calls_this_api));
        }
        let dead = matches!(self.faults.dead_from, Some(d) if idx >= d);
        if dead || self.faults.fail_at.remove(&idx) {
            self.faults_fired.push((idx, self.api_call, is_write));
            return Err(DevErr::Injected);
        }
        Ok(())
    }
}

impl BlockDevice for SimDisk {
    type Error = DevErr;

    fn read(&self, blocks: &mut [Block], start: BlockIdx) -> Result<(), DevErr> {
        let mut i = self.0.borrow_mut();
        if let Err(e) = i.pre_call(false, start.0) {
            if i.faults.scribble {
                for (k, b) in blocks.iter_mut().enumerate() {
                    for (j, x) in b.contents.iter_mut().enumerate() {
                        *x = 0xA5u8.wrapping_add((j as u8).wrapping_mul(3)).wrapping_add(k as u8);
                    }
                }
            }
            return Err(e);
        }
        for (k, b) in blocks.iter_mut().enumerate() {
            let idx = start.0.wrapping_add(k as u32);
            if idx >= i.img.num_blocks || idx < start.0 {
                i.oob.push((idx, false));
                return Err(DevErr::OutOfRange);
            }
            b.contents = i.img.rd(idx);
        }
        Ok(())
    }

    fn write(&self, blocks: &[Block], start: BlockIdx) -> Result<(), DevErr> {
        let mut i = self.0.borrow_mut();
        i.pre_call(true, start.0)?;
        for (k, b) in blocks.iter().enumerate() {
            let idx = start.0.wrapping_add(k as u32);
            if idx >= i.img.num_blocks || idx < start.0 {
                i.oob.push((idx, true));
                return Err(DevErr::OutOfRange);
            }
            if i.log_enabled {
                let old = Box::new(i.img.rd(idx));
                let rec = WriteRec {
                    api: i.api_call,
                    dev: i.dev_calls - 1,
                    block: idx,
                    old,
                    new: Box::new(b.contents),
                };
                i.log.push(rec);
            }
            i.img.wr(idx, &b.contents);
        }
        Ok(())
    }

    fn num_blocks(&self) -> Result<BlockCount, DevErr> {
        Ok(BlockCount(self.0.borrow().img.num_blocks))
    }
}

/// Clock: a tick mapped injectively onto valid even-second timestamps.
#[derive(Clone)]
pub struct SimClock(pub Rc<std::cell::Cell<u32>>);

pub fn tick_to_fields(tick: u32) -> (u16, u8, u8, u8, u8, u8) {
    let s = tick as u64 * 2;
    let sec = (s % 60) as u8;
    let min = ((s / 60) % 60) as u8;
    let hr = ((s / 3600) % 24) as u8;
    let day = ((s / 86400) % 28) as u8 + 1;
    let month = ((s / (86400 * 28)) % 12) as u8 + 1;
    let year = 1981 + (s / (86400 * 28 * 12)) as u16;
    (year, month, day, hr, min, sec)
}

/// FAT (date, time) words for a tick.
pub fn tick_to_fat(tick: u32) -> (u16, u16) {
    let (y, mo, d, h, mi, s) = tick_to_fields(tick);
    let date = ((y - 1980) << 9) | ((mo as u16) << 5) | d as u16;
    let time = ((h as u16) << 11) | ((mi as u16) << 5) | (s as u16 / 2);
    (date, time)
}

impl SimClock {
    pub fn new(t: u32) -> SimClock {
        SimClock(Rc::new(std::cell::Cell::new(t)))
    }
    pub fn get(&self) -> u32 {
        self.0.get()
    }
    pub fn advance(&self, by: u32) {
        // keep below year 2107
        let t = (self.0.get() + by) % 1_500_000_000;
        self.0.set(t);
    }
}

impl embedded_sdmmc::TimeSource for SimClock {
    fn get_timestamp(&self) -> embedded_sdmmc::Timestamp {
        let (y, mo, d, h, mi, s) = tick_to_fields(self.0.get());
        embedded_sdmmc::Timestamp::from_calendar(y, mo, d, h, mi, s).unwrap()
    }
}
