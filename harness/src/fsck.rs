//! Independent FAT reader and structural checker. Operates on raw images only;
//! uses no type or constant of the crate under test.

pub use crate::mkfs::Layout;
use crate::simdisk::{is_stale_name, Img};
use std::collections::{BTreeSet, HashMap};

#[derive(Clone, Debug, PartialEq)]
pub struct PartEntry {
    pub status: u8,
    pub ptype: u8,
    pub start: u32,
    pub len: u32,
}

fn u16le(b: &[u8], o: usize) -> u16 {
    u16::from_le_bytes([b[o], b[o + 1]])
}
fn u32le(b: &[u8], o: usize) -> u32 {
    u32::from_le_bytes([b[o], b[o + 1], b[o + 2], b[o + 3]])
}

pub fn parse_mbr(img: &dyn Img) -> Result<Vec<PartEntry>, String> {
    let b = img.rd(0);
    if b[510] != 0x55 || b[511] != 0xAA {
        return Err("no MBR signature".into());
    }
    let mut v = Vec::new();
    for i in 0..4 {
        let o = 446 + 16 * i;
        v.push(PartEntry {
            status: b[o],
            ptype: b[o + 4],
            start: u32le(&b, o + 8),
            len: u32le(&b, o + 12),
        });
    }
    Ok(v)
}

pub fn parse_bpb(img: &dyn Img, part_start: u32, part_len: u32) -> Result<Layout, String> {
    let b = img.rd(part_start);
    if b[510] != 0x55 || b[511] != 0xAA {
        return Err("no boot signature".into());
    }
    let bps = u16le(&b, 11);
    if bps != 512 {
        return Err(format!("bytes per sector {}", bps));
    }
    let spc = b[13] as u32;
    if spc == 0 || !spc.is_power_of_two() {
        return Err("bad sectors per cluster".into());
    }
    let reserved = u16le(&b, 14) as u32;
    if reserved == 0 {
        return Err("reserved = 0".into());
    }
    let num_fats = b[16] as u32;
    if num_fats == 0 {
        return Err("no FATs".into());
    }
    let root_entries = u16le(&b, 17) as u32;
    let tot16 = u16le(&b, 19) as u32;
    let fatsz16 = u16le(&b, 22) as u32;
    let tot32 = u32le(&b, 32);
    let fatsz32 = u32le(&b, 36);
    let fat_sectors = if fatsz16 != 0 { fatsz16 } else { fatsz32 };
    let total = if tot16 != 0 { tot16 } else { tot32 };
    let root_sectors = (root_entries * 32 + 511) / 512;
    let meta = reserved as u64 + num_fats as u64 * fat_sectors as u64 + root_sectors as u64;
    if meta > total as u64 {
        return Err("metadata larger than volume".into());
    }
    let data = total - meta as u32;
    let clusters = data / spc;
    if clusters < 4085 {
        return Err("FAT12".into());
    }
    let fat32 = clusters >= 65525;
    let first_data = meta as u32;
    Ok(Layout {
        part_start,
        part_len,
        fat32,
        spc,
        reserved,
        num_fats,
        fat_sectors,
        root_entries,
        root_sectors,
        first_data,
        clusters,
        root_cluster: if fat32 { u32le(&b, 44) } else { 0 },
        fsinfo_sector: if fat32 { u16le(&b, 48) as u32 } else { 0 },
        total,
    })
}

#[derive(Clone, Copy, Debug, PartialEq, Eq)]
pub enum FatVal {
    Free,
    Reserved,
    Next(u32),
    Bad,
    Eoc,
}

pub fn fat_raw(img: &dyn Img, lay: &Layout, copy: u32, c: u32) -> u32 {
    let es = lay.entry_size();
    let off = c * es;
    let blk = lay.fat_start(copy) + off / 512;
    let b = img.rd(blk);
    let o = (off % 512) as usize;
    if lay.fat32 {
        u32le(&b, o)
    } else {
        u16le(&b, o) as u32
    }
}

pub fn classify(lay: &Layout, raw: u32) -> FatVal {
    if lay.fat32 {
        let v = raw & 0x0FFF_FFFF;
        match v {
            0 => FatVal::Free,
            1 => FatVal::Reserved,
            0x0FFF_FFF7 => FatVal::Bad,
            0x0FFF_FFF8..=0x0FFF_FFFF => FatVal::Eoc,
            n if (0x0FFF_FFF0..=0x0FFF_FFF6).contains(&n) && !lay.in_range(n) => FatVal::Reserved,
            n => FatVal::Next(n),
        }
    } else {
        match raw {
            0 => FatVal::Free,
            1 => FatVal::Reserved,
            0xFFF7 => FatVal::Bad,
            0xFFF8..=0xFFFF => FatVal::Eoc,
            // 0xFFF0..=0xFFF6 are ordinary cluster numbers on the largest FAT16
            // volumes (up to 65524 clusters => highest cluster 0xFFF5)
            n if (0xFFF0..=0xFFF6).contains(&n) && !lay.in_range(n) => FatVal::Reserved,
            n => FatVal::Next(n),
        }
    }
}

pub fn fat_val(img: &dyn Img, lay: &Layout, c: u32) -> FatVal {
    classify(lay, fat_raw(img, lay, 0, c))
}

/// A cached view of the first FAT copy (one read per sector).
pub struct FatView<'a> {
    img: &'a dyn Img,
    pub lay: &'a Layout,
    cache: std::cell::RefCell<HashMap<u32, Box<[u8; 512]>>>,
}

impl<'a> FatView<'a> {
    pub fn new(img: &'a dyn Img, lay: &'a Layout) -> Self {
        FatView {
            img,
            lay,
            cache: Default::default(),
        }
    }
    pub fn raw(&self, c: u32) -> u32 {
        let es = self.lay.entry_size();
        let off = c * es;
        let s = off / 512;
        let mut cache = self.cache.borrow_mut();
        let b = cache
            .entry(s)
            .or_insert_with(|| Box::new(self.img.rd(self.lay.fat_start(0) + s)));
        let o = (off % 512) as usize;
        if self.lay.fat32 {
            u32le(&b[..], o)
        } else {
            u16le(&b[..], o) as u32
        }
    }
    pub fn val(&self, c: u32) -> FatVal {
        classify(self.lay, self.raw(c))
    }
}

#[derive(Clone, Debug, PartialEq, Eq)]
pub enum ChainEnd {
    Eoc,
    Free(u32),
    Bad(u32),
    Reserved(u32),
    OutOfRange(u32),
    Loop(u32),
    StartOutOfRange(u32),
}

pub fn chain(fv: &FatView, start: u32) -> (Vec<u32>, ChainEnd) {
    let lay = fv.lay;
    let mut v = Vec::new();
    if !lay.in_range(start) {
        return (v, ChainEnd::StartOutOfRange(start));
    }
    let mut seen: BTreeSet<u32> = BTreeSet::new();
    let mut c = start;
    loop {
        if !seen.insert(c) {
            return (v, ChainEnd::Loop(c));
        }
        v.push(c);
        match fv.val(c) {
            FatVal::Eoc => return (v, ChainEnd::Eoc),
            FatVal::Free => return (v, ChainEnd::Free(c)),
            FatVal::Bad => return (v, ChainEnd::Bad(c)),
            FatVal::Reserved => return (v, ChainEnd::Reserved(c)),
            FatVal::Next(n) => {
                if !lay.in_range(n) {
                    return (v, ChainEnd::OutOfRange(n));
                }
                c = n;
            }
        }
        if v.len() as u32 > lay.clusters + 2 {
            return (v, ChainEnd::Loop(c));
        }
    }
}

#[derive(Clone, Copy, Debug, PartialEq, Eq)]
pub enum SlotKind {
    Deleted,
    Lfn,
    Label,
    Live,
}

#[derive(Clone, Debug)]
pub struct DSlot {
    pub block: u32,
    pub off: u32,
    pub raw: [u8; 32],
    pub kind: SlotKind,
    /// long name (UTF-16 units, NUL-terminated part removed) by the strict rule
    pub lfn: Option<Vec<u16>>,
}

impl DSlot {
    /// logical name: a stored first byte 0x05 stands for 0xE5
    pub fn name(&self) -> [u8; 11] {
        let mut n = [0u8; 11];
        n.copy_from_slice(&self.raw[0..11]);
        if n[0] == 0x05 {
            n[0] = 0xE5;
        }
        n
    }
    pub fn attr(&self) -> u8 {
        self.raw[11]
    }
    pub fn is_dir(&self) -> bool {
        self.raw[11] & 0x10 != 0
    }
    pub fn size(&self) -> u32 {
        u32le(&self.raw, 28)
    }
    pub fn first(&self, fat32: bool) -> u32 {
        let lo = u16le(&self.raw, 26) as u32;
        if fat32 {
            lo | ((u16le(&self.raw, 20) as u32) << 16)
        } else {
            lo
        }
    }
    pub fn is_dot(&self) -> bool {
        &self.raw[0..11] == b".          "
    }
    pub fn is_dotdot(&self) -> bool {
        &self.raw[0..11] == b"..         "
    }
}

#[derive(Clone, Copy, Debug, PartialEq, Eq)]
pub enum DirLoc {
    Root,
    Cluster(u32),
}

#[derive(Clone, Debug)]
pub struct DirListing {
    /// all slots before the end marker, in on-disk order
    pub slots: Vec<DSlot>,
    /// index (in slot units) of the end marker, if any
    pub end_at: Option<u32>,
    pub total_slots: u32,
    pub nonzero_after_end: Option<(u32, u32)>,
    /// raw non-zero slots behind the end marker (at most 64)
    pub after_end: Vec<[u8; 32]>,
    pub chain: Vec<u32>,
    pub chain_end: ChainEnd,
    pub blocks: Vec<u32>,
}

pub fn dir_blocks(fv: &FatView, loc: DirLoc) -> (Vec<u32>, Vec<u32>, ChainEnd) {
    let lay = fv.lay;
    match loc {
        DirLoc::Root if !lay.fat32 => {
            let s = lay.root16_start();
            ((s..s + lay.root_sectors).collect(), vec![], ChainEnd::Eoc)
        }
        _ => {
            let start = match loc {
                DirLoc::Root => lay.root_cluster,
                DirLoc::Cluster(c) => c,
            };
            let (ch, end) = chain(fv, start);
            let mut blocks = Vec::new();
            for c in &ch {
                let b = lay.cluster_block(*c);
                for s in 0..lay.spc {
                    blocks.push(b + s);
                }
            }
            (blocks, ch, end)
        }
    }
}

fn lfn_units_of(raw: &[u8; 32]) -> [u16; 13] {
    let pos = [1usize, 3, 5, 7, 9, 14, 16, 18, 20, 22, 24, 28, 30];
    let mut u = [0u16; 13];
    for (k, p) in pos.iter().enumerate() {
        u[k] = u16le(raw, *p);
    }
    u
}

pub fn sfn_checksum(name: &[u8]) -> u8 {
    let mut sum: u8 = 0;
    for &c in &name[0..11] {
        sum = ((sum & 1) << 7).wrapping_add(sum >> 1).wrapping_add(c);
    }
    sum
}

pub fn list_dir(img: &dyn Img, fv: &FatView, loc: DirLoc) -> DirListing {
    let (blocks, ch, end) = dir_blocks(fv, loc);
    let mut slots: Vec<DSlot> = Vec::new();
    let mut end_at = None;
    let mut nonzero_after_end = None;
    let mut after_end: Vec<[u8; 32]> = Vec::new();
    let mut idx = 0u32;
    // pending LFN run: (ordinal expected next, csum, fragments in disk order)
    let mut run: Option<(u8, u8, Vec<[u16; 13]>)> = None;
    // the fixed FAT16 root has exactly BPB_RootEntCnt slots; whatever else its last sector holds
    // is not part of the directory
    let slot_limit = if matches!(loc, DirLoc::Root) && !fv.lay.fat32 { fv.lay.root_entries } else { u32::MAX };
    'blocks: for blk in &blocks {
        let b = img.rd(*blk);
        for i in 0..16 {
            if idx >= slot_limit {
                break 'blocks;
            }
            let raw: [u8; 32] = b[i * 32..i * 32 + 32].try_into().unwrap();
            if end_at.is_some() {
                if raw.iter().any(|x| *x != 0) {
                    if nonzero_after_end.is_none() {
                        nonzero_after_end = Some((*blk, i as u32 * 32));
                    }
                    if after_end.len() < 64 {
                        after_end.push(raw);
                    }
                }
                idx += 1;
                continue;
            }
            if raw[0] == 0 {
                end_at = Some(idx);
                idx += 1;
                continue;
            }
            let kind;
            let mut lfn = None;
            if raw[0] == 0xE5 {
                kind = SlotKind::Deleted;
                run = None;
            } else if raw[11] & 0x3F == 0x0F {
                kind = SlotKind::Lfn;
                let ord = raw[0];
                let csum = raw[13];
                let units = lfn_units_of(&raw);
                if ord & 0x40 != 0 {
                    // the ordinal byte is N | 0x40 and nothing else: bit 7 is not part of it
                    let n = ord & !0x40;
                    if (1..=20).contains(&n) {
                        run = Some((n - 1, csum, vec![units]));
                    } else {
                        run = None;
                    }
                } else {
                    run = match run.take() {
                        Some((next, cs, mut v)) if next >= 1 && ord == next && cs == csum => {
                            v.push(units);
                            Some((next - 1, cs, v))
                        }
                        _ => None,
                    };
                }
            } else {
                kind = if raw[11] & 0x08 != 0 && raw[11] & 0x10 == 0 {
                    SlotKind::Label
                } else {
                    SlotKind::Live
                };
                if let Some((next, cs, v)) = run.take() {
                    if next == 0 && cs == sfn_checksum(&raw[0..11]) {
                        // join in name order = reverse disk order
                        // each fragment contributes its units up to its first NUL (on a
                        // well-formed volume only the last fragment of the name has one; where a
                        // NUL in an earlier fragment ends the name the property does not say, and
                        // its name-buffer half is stated fragment by fragment)
                        let mut units: Vec<u16> = Vec::new();
                        for frag in v.iter().rev() {
                            for u in frag.iter() {
                                if *u == 0 {
                                    break;
                                }
                                units.push(*u);
                            }
                        }
                        lfn = Some(units);
                    }
                }
            }
            slots.push(DSlot {
                block: *blk,
                off: i as u32 * 32,
                raw,
                kind,
                lfn,
            });
            idx += 1;
        }
    }
    DirListing {
        slots,
        end_at,
        total_slots: idx,
        nonzero_after_end,
        after_end,
        chain: ch,
        chain_end: end,
        blocks,
    }
}

#[derive(Clone, Debug)]
pub struct FNode {
    pub path: String,
    pub slot: Option<DSlot>,
    pub is_dir: bool,
    pub first: u32,
    pub size: u32,
    pub chain: Vec<u32>,
    pub chain_end: ChainEnd,
    pub listing: Option<DirListing>,
    pub children: Vec<FNode>,
}

pub fn name_to_string(n: &[u8]) -> String {
    let mut m = n[0..11].to_vec();
    if m[0] == 0x05 {
        m[0] = 0xE5;
    }
    let n = &m[..];
    let base: String = n[0..8].iter().map(|c| *c as char).collect::<String>().trim_end().to_string();
    let ext: String = n[8..11].iter().map(|c| *c as char).collect::<String>().trim_end().to_string();
    if ext.is_empty() {
        base
    } else {
        format!("{}.{}", base, ext)
    }
}

/// Override of the on-disk entry for a still-open file.
#[derive(Clone, Debug)]
pub struct Pending {
    pub entry_block: u32,
    pub entry_off: u32,
    pub first: u32,
    pub size: u32,
}

pub struct Walk {
    pub root: FNode,
    /// cluster -> owner paths
    pub owners: HashMap<u32, Vec<String>>,
    pub dirs_visited: usize,
    pub truncated: bool,
    pub truncated_why: String,
}

pub fn walk(img: &dyn Img, fv: &FatView, pending: &[Pending]) -> Walk {
    let lay = fv.lay;
    let mut owners: HashMap<u32, Vec<String>> = HashMap::new();
    let mut visited: BTreeSet<u32> = BTreeSet::new();
    let mut truncated = false;
    let mut why = String::new();
    let listing = list_dir(img, fv, DirLoc::Root);
    if lay.fat32 {
        for c in &listing.chain {
            owners.entry(*c).or_default().push("/".into());
        }
        visited.insert(lay.root_cluster);
    }
    let mut root = FNode {
        path: "/".into(),
        slot: None,
        is_dir: true,
        first: if lay.fat32 { lay.root_cluster } else { 0 },
        size: 0,
        chain: listing.chain.clone(),
        chain_end: listing.chain_end.clone(),
        listing: Some(listing),
        children: vec![],
    };
    let mut budget: usize = 20000;
    fill_children(img, fv, &mut root, pending, &mut owners, &mut visited, 0, &mut truncated, &mut budget, &mut why);
    Walk {
        root,
        owners,
        dirs_visited: visited.len(),
        truncated,
        truncated_why: why,
    }
}

#[allow(clippy::too_many_arguments)]
fn fill_children(
    img: &dyn Img,
    fv: &FatView,
    dir: &mut FNode,
    pending: &[Pending],
    owners: &mut HashMap<u32, Vec<String>>,
    visited: &mut BTreeSet<u32>,
    depth: u32,
    truncated: &mut bool,
    budget: &mut usize,
    why: &mut String,
) {
    let lay = fv.lay;
    let slots: Vec<DSlot> = dir.listing.as_ref().unwrap().slots.clone();
    for s in slots {
        if s.kind != SlotKind::Live {
            continue;
        }
        if s.is_dot() || s.is_dotdot() {
            continue;
        }
        if *budget == 0 {
            *truncated = true;
            *why = "more than 20000 entries".into();
            return;
        }
        *budget -= 1;
        let mut first = s.first(lay.fat32);
        let mut size = s.size();
        let is_dir = s.is_dir();
        if !is_dir {
            if let Some(p) = pending.iter().find(|p| p.entry_block == s.block && p.entry_off == s.off) {
                first = p.first;
                size = p.size;
            }
        }
        let path = format!("{}{}{}", dir.path, if dir.path.ends_with('/') { "" } else { "/" }, name_to_string(&s.raw[0..11]));
        let (ch, end) = if first == 0 && !is_dir {
            (vec![], ChainEnd::Eoc)
        } else {
            chain(fv, first)
        };
        for c in &ch {
            owners.entry(*c).or_default().push(path.clone());
        }
        let mut node = FNode {
            path,
            slot: Some(s.clone()),
            is_dir,
            first,
            size,
            chain: ch,
            chain_end: end,
            listing: None,
            children: vec![],
        };
        if is_dir && lay.in_range(first) {
            if depth >= 12 || !visited.insert(first) {
                *truncated = true;
                if why.is_empty() {
                    *why = format!("directory {} (cluster {}) is deeper than 12 levels or its cluster is also the start of another directory", node.path, first);
                }
            } else {
                node.listing = Some(list_dir(img, fv, DirLoc::Cluster(first)));
                fill_children(img, fv, &mut node, pending, owners, visited, depth + 1, truncated, budget, why);
            }
        }
        dir.children.push(node);
    }
}

#[derive(Clone, Debug, PartialEq)]
pub struct Viol {
    pub code: &'static str,
    pub detail: String,
}

#[derive(Clone, Copy, PartialEq, Eq, Debug)]
pub enum Mode {
    Live,
    Crash,
}

fn v(code: &'static str, detail: String) -> Viol {
    Viol { code, detail }
}

pub fn check_tree(w: &Walk, lay: &Layout, mode: Mode) -> Vec<Viol> {
    let mut out = Vec::new();
    if w.truncated {
        out.push(v("walk-truncated", format!("directory graph is cyclic, too deep or too large: {}", w.truncated_why)));
    }
    // cross links
    let mut cl: Vec<(&u32, &Vec<String>)> = w.owners.iter().filter(|(_, o)| o.len() > 1).collect();
    cl.sort();
    if let Some((c, o)) = cl.first() {
        out.push(v("I3-cross-link", format!("cluster {} owned by {:?}", c, o)));
    }
    check_node(&w.root, None, lay, mode, &mut out);
    out
}

fn check_node(n: &FNode, parent: Option<&FNode>, lay: &Layout, mode: Mode, out: &mut Vec<Viol>) {
    let is_root = parent.is_none();
    // chain validity
    if !(is_root && !lay.fat32) {
        let has_chain = n.is_dir || n.first != 0;
        if has_chain {
            match &n.chain_end {
                ChainEnd::Eoc => {}
                ChainEnd::StartOutOfRange(c) => {
                    if n.is_dir && *c < 2 {
                        out.push(v("I1-dir-no-cluster", format!("{} directory entry has cluster {}", n.path, c)));
                    } else {
                        out.push(v("I1-start-out-of-range", format!("{} starts at {}", n.path, c)));
                    }
                }
                e => out.push(v("I2-chain", format!("{} chain {:?} ends with {:?}", n.path, &n.chain[..n.chain.len().min(8)], e))),
            }
        }
    }
    if !n.is_dir {
        if mode == Mode::Live {
            let cap = n.chain.len() as u64 * lay.cluster_bytes() as u64;
            if (n.size as u64) > cap {
                out.push(v("I4-size", format!("{} size {} but chain holds {}", n.path, n.size, cap)));
            }
        }
        return;
    }
    let Some(l) = &n.listing else { return };
    if let Some((b, o)) = l.nonzero_after_end {
        // also after a power cut: stale bytes behind the end marker of a reachable directory
        // become entries as soon as the directory fills up to them
        out.push(v("I5-after-end", format!("{} has a non-zero slot after the end marker at block {} offset {}", n.path, b, o)));
        let _ = mode;
    }
    // stale pattern exposure
    for s in &l.slots {
        if s.kind == SlotKind::Live && is_stale_name(&s.raw[0..11]) {
            out.push(v("X-stale-exposed", format!("{} exposes uninitialised cluster contents at block {} offset {}", n.path, s.block, s.off)));
            break;
        }
    }
    // unique names
    let mut seen: HashMap<[u8; 11], u32> = HashMap::new();
    for s in &l.slots {
        if mode == Mode::Crash {
            break;
        }
        if s.kind == SlotKind::Live {
            if let Some(prev) = seen.insert(s.name(), s.off) {
                let _ = prev;
                out.push(v("I5-duplicate-name", format!("{} holds {:?} twice", n.path, name_to_string(&s.raw[0..11]))));
                break;
            }
        }
    }
    // dot entries
    if !is_root && mode == Mode::Live {
        let d0 = l.slots.first();
        let d1 = l.slots.get(1);
        let ok0 = matches!(d0, Some(s) if s.kind == SlotKind::Live && s.is_dot() && s.is_dir() && s.first(lay.fat32) == n.first);
        let pfirst = match parent {
            Some(p) if p.slot.is_none() => 0, // parent is root
            Some(p) => p.first,
            None => 0,
        };
        let ok1 = matches!(d1, Some(s) if s.kind == SlotKind::Live && s.is_dotdot() && s.is_dir() && s.first(lay.fat32) == pfirst);
        if !ok0 {
            out.push(v("I5-dot", format!("{} slot 0 is not a correct '.' entry", n.path)));
        } else if !ok1 {
            out.push(v("I5-dotdot", format!("{} slot 1 is not a correct '..' entry (parent cluster {})", n.path, pfirst)));
        }
    }
    for c in &n.children {
        check_node(c, Some(n), lay, mode, out);
    }
}

/// Clusters whose FAT entry is neither free nor bad.
pub fn in_use_set(fv: &FatView) -> BTreeSet<u32> {
    let mut s = BTreeSet::new();
    for c in 2..fv.lay.clusters + 2 {
        match fv.val(c) {
            FatVal::Free | FatVal::Bad => {}
            _ => {
                s.insert(c);
            }
        }
    }
    s
}

pub fn free_count(fv: &FatView) -> u32 {
    let mut n = 0;
    for c in 2..fv.lay.clusters + 2 {
        if fv.val(c) == FatVal::Free {
            n += 1
        }
    }
    n
}

pub fn reachable_set(w: &Walk) -> BTreeSet<u32> {
    w.owners.keys().copied().collect()
}

/// Compare all FAT copies with the first; returns the first differing (copy, sector).
pub fn fat_copies_differ(img: &dyn Img, lay: &Layout) -> Option<(u32, u32)> {
    for copy in 1..lay.num_fats {
        for s in 0..lay.fat_sectors {
            if img.rd(lay.fat_start(0) + s) != img.rd(lay.fat_start(copy) + s) {
                return Some((copy, s));
            }
        }
    }
    None
}

pub fn fsinfo(img: &dyn Img, lay: &Layout) -> Option<(u32, u32)> {
    if !lay.fat32 {
        return None;
    }
    let b = img.rd(lay.part_start + lay.fsinfo_sector);
    Some((u32le(&b, 488), u32le(&b, 492)))
}

pub fn find_path<'a>(root: &'a FNode, path: &str) -> Option<&'a FNode> {
    if path == "/" {
        return Some(root);
    }
    let mut cur = root;
    for comp in path.trim_start_matches('/').split('/') {
        let mut found = None;
        for c in &cur.children {
            if c.path.rsplit('/').next() == Some(comp) {
                found = Some(c);
                break;
            }
        }
        cur = found?;
    }
    Some(cur)
}

pub fn read_file(img: &dyn Img, lay: &Layout, n: &FNode) -> Vec<u8> {
    let mut out = Vec::with_capacity(n.size as usize);
    let mut left = n.size as usize;
    'outer: for c in &n.chain {
        let b0 = lay.cluster_block(*c);
        for s in 0..lay.spc {
            if left == 0 {
                break 'outer;
            }
            let b = img.rd(b0 + s);
            let k = left.min(512);
            out.extend_from_slice(&b[..k]);
            left -= k;
        }
    }
    out
}

/// Convenience: parse partition `slot` of an image.
pub fn layout_of(img: &dyn Img, slot: usize) -> Result<Layout, String> {
    let parts = parse_mbr(img)?;
    let p = parts.get(slot).ok_or("no such slot")?;
    parse_bpb(img, p.start, p.len)
}
