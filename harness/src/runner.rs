//! Parallel proptest driver, shrinking, replay files, evidence, known findings.

use proptest::strategy::{BoxedStrategy, Strategy};
use proptest::test_runner::{Config, RngAlgorithm, TestCaseError, TestError, TestRng, TestRunner};
use serde::{de::DeserializeOwned, Deserialize, Serialize};
use serde_json::{json, Value};
use std::collections::{BTreeMap, BTreeSet, HashSet};
use std::hash::{Hash, Hasher};
use std::sync::atomic::{AtomicBool, Ordering};
use std::sync::Mutex;
use std::time::Instant;

#[derive(Clone, Copy, Debug, PartialEq, Eq)]
pub enum Tier {
    Quick,
    Thorough,
}

impl Tier {
    pub fn name(&self) -> &'static str {
        match self {
            Tier::Quick => "quick",
            Tier::Thorough => "thorough",
        }
    }
    pub fn pick<T>(&self, q: T, t: T) -> T {
        match self {
            Tier::Quick => q,
            Tier::Thorough => t,
        }
    }
}

#[derive(Clone, Debug)]
pub struct Failure {
    /// oracle-level signature, e.g. "C17/leading-lone-surrogate-dropped"
    pub sig: String,
    pub detail: String,
}

/// Per-thread accumulator of what the run covered.
#[derive(Default)]
pub struct Acc {
    pub evaluations: u64,
    pub shapes: HashSet<u64>,
    pub classes: BTreeMap<String, u64>,
    pub samples: Vec<Value>,
    pub known_seen: BTreeMap<String, u64>,
    pub excluded_known: u64,
    pub skipped_ops: u64,
    pub ops: u64,
    pub desync: u64,
    pub notes: BTreeSet<String>,
}

impl Acc {
    pub fn class(&mut self, name: &str) {
        *self.classes.entry(name.to_string()).or_insert(0) += 1;
    }
    pub fn class_n(&mut self, name: &str, n: u64) {
        *self.classes.entry(name.to_string()).or_insert(0) += n;
    }
    pub fn shape<H: Hash>(&mut self, h: &H) {
        let mut s = std::collections::hash_map::DefaultHasher::new();
        h.hash(&mut s);
        self.shapes.insert(s.finish());
    }
    pub fn sample(&mut self, v: Value) {
        if self.samples.len() < 3 {
            self.samples.push(v);
        }
    }
    pub fn known(&mut self, sig: &str) {
        *self.known_seen.entry(sig.to_string()).or_insert(0) += 1;
        self.excluded_known += 1;
    }
    pub fn merge(&mut self, o: Acc) {
        self.evaluations += o.evaluations;
        self.shapes.extend(o.shapes);
        for (k, v) in o.classes {
            *self.classes.entry(k).or_insert(0) += v;
        }
        for s in o.samples {
            if self.samples.len() < 5 {
                self.samples.push(s);
            }
        }
        for (k, v) in o.known_seen {
            *self.known_seen.entry(k).or_insert(0) += v;
        }
        self.excluded_known += o.excluded_known;
        self.skipped_ops += o.skipped_ops;
        self.ops += o.ops;
        self.desync += o.desync;
        self.notes.extend(o.notes);
    }
}

#[derive(Clone, Debug, Deserialize)]
pub struct KnownFinding {
    pub property: String,
    pub signature: String,
    pub status: String,
    #[serde(default)]
    pub commit: Option<String>,
    pub what: String,
}

pub fn load_known() -> Vec<KnownFinding> {
    let p = "/verif/known_findings.json";
    match std::fs::read_to_string(p) {
        Ok(s) => serde_json::from_str::<Vec<KnownFinding>>(&s).unwrap_or_else(|e| {
            eprintln!("cannot parse {}: {}", p, e);
            std::process::exit(2)
        }),
        Err(_) => vec![],
    }
}

/// Is `sig` an *open* known finding of `prop`?
pub fn is_open_known(known: &[KnownFinding], prop: &str, sig: &str) -> bool {
    known.iter().any(|k| k.status == "open" && k.property == prop && k.signature == sig)
}

pub struct Outcome {
    pub acc: Acc,
    pub violation: Option<(Failure, Value)>,
    pub wall_s: f64,
}

pub fn seed_bytes(seed: u64, prop: &str, worker: u64) -> [u8; 32] {
    let mut b = [0u8; 32];
    let mut h: u64 = 0xcbf29ce484222325 ^ seed.wrapping_mul(0x100000001b3);
    for c in prop.bytes() {
        h = (h ^ c as u64).wrapping_mul(0x100000001b3);
    }
    h = (h ^ worker).wrapping_mul(0x9E3779B97F4A7C15);
    for i in 0..4 {
        h ^= h >> 33;
        h = h.wrapping_mul(0xff51afd7ed558ccd);
        h ^= h >> 29;
        b[i * 8..i * 8 + 8].copy_from_slice(&h.to_le_bytes());
        h = h.wrapping_add(0x9E3779B97F4A7C15);
    }
    b
}

pub fn threads() -> usize {
    std::env::var("VERIF_THREADS").ok().and_then(|s| s.parse().ok()).unwrap_or(16)
}

/// Run `cases` generated cases over all cores. `test` must be a pure function
/// of the case. Returns after all workers finish; the failure of the lowest
/// worker index is reported.
pub fn run_parallel<T, SF, F>(prop: &str, seed: u64, cases: u64, strat: SF, test: F) -> Outcome
where
    T: std::fmt::Debug + Clone + Serialize + Send + 'static,
    SF: Fn() -> BoxedStrategy<T> + Sync,
    F: Fn(&T, &mut Acc) -> Result<(), Failure> + Sync,
{
    let t0 = Instant::now();
    let nthreads = threads().max(1) as u64;
    let per = (cases + nthreads - 1) / nthreads;
    let results: Mutex<Vec<(u64, Acc, Option<(Failure, Value)>)>> = Mutex::new(Vec::new());
    let stop = AtomicBool::new(false);
    std::thread::scope(|sc| {
        for w in 0..nthreads {
            let results = &results;
            let strat = &strat;
            let test = &test;
            let stop = &stop;
            std::thread::Builder::new()
                .stack_size(64 << 20)
                .spawn_scoped(sc, move || {
                    let cfg = Config {
                        cases: per as u32,
                        failure_persistence: None,
                        max_shrink_iters: std::env::var("VERIF_SHRINK").ok().and_then(|s| s.parse().ok()).unwrap_or(600),
                        max_global_rejects: 100_000,
                        ..Config::default()
                    };
                    let rng = TestRng::from_seed(RngAlgorithm::ChaCha, &seed_bytes(seed, prop, w));
                    let mut runner = TestRunner::new_with_rng(cfg, rng);
                    let acc = std::cell::RefCell::new(Acc::default());
                    let failed = std::cell::Cell::new(false);
                    let no_shrink = std::cell::Cell::new(false);
                    let last_fail: std::cell::RefCell<Option<Failure>> = std::cell::RefCell::new(None);
                    let s = strat();
                    let r = runner.run(&s, |case| {
                        if failed.get() {
                            tick();
                            // a case that does not terminate costs its whole budget on every
                            // re-run: report it unshrunk (every shrink candidate "passes")
                            if no_shrink.get() {
                                return Ok(());
                            }
                            // shrinking: do not count, but remember the failure of the candidate
                            let mut scratch = Acc::default();
                            return match test(&case, &mut scratch) {
                                Ok(()) => Ok(()),
                                Err(f) => {
                                    let m = f.sig.clone();
                                    *last_fail.borrow_mut() = Some(f);
                                    Err(TestCaseError::fail(m))
                                }
                            };
                        }
                        if stop.load(Ordering::Relaxed) {
                            return Ok(());
                        }
                        tick();
                        let mut a = acc.borrow_mut();
                        a.evaluations += 1;
                        match test(&case, &mut a) {
                            Ok(()) => Ok(()),
                            Err(f) => {
                                failed.set(true);
                                if f.sig.ends_with("/unbounded") || f.sig.ends_with("/hang") || f.sig.ends_with("/call-did-not-terminate") || f.sig.ends_with("/mount-hang") {
                                    no_shrink.set(true);
                                }
                                stop.store(true, Ordering::Relaxed);
                                let m = f.sig.clone();
                                *last_fail.borrow_mut() = Some(f);
                                Err(TestCaseError::fail(m))
                            }
                        }
                    });
                    let viol = match r {
                        Ok(()) => None,
                        Err(TestError::Fail(_, minimal)) => {
                            // re-run the minimal case to get its own failure text
                            let mut scratch = Acc::default();
                            let f = match test(&minimal, &mut scratch) {
                                Err(f) => f,
                                Ok(()) => last_fail.borrow().clone().unwrap_or(Failure { sig: "unreproducible".into(), detail: "minimal case passed on re-run".into() }),
                            };
                            Some((f, serde_json::to_value(&minimal).unwrap()))
                        }
                        Err(TestError::Abort(why)) => Some((
                            Failure { sig: "harness/abort".into(), detail: format!("proptest aborted: {}", why) },
                            Value::Null,
                        )),
                    };
                    results.lock().unwrap().push((w, acc.into_inner(), viol));
                })
                .unwrap();
        }
    });
    let mut v = results.into_inner().unwrap();
    v.sort_by_key(|x| x.0);
    let mut acc = Acc::default();
    let mut violation = None;
    for (_, a, viol) in v {
        acc.merge(a);
        if violation.is_none() {
            violation = viol;
        }
    }
    Outcome {
        acc,
        violation,
        wall_s: t0.elapsed().as_secs_f64(),
    }
}

#[derive(Serialize, Deserialize)]
pub struct ReplayFile {
    pub property: String,
    pub engine: String,
    pub signature: String,
    pub detail: String,
    pub case: Value,
}

pub fn write_replay(prop: &str, engine: &str, f: &Failure, case: &Value) -> String {
    let rdir = std::env::var("VERIF_REPLAY_DIR").unwrap_or_else(|_| "/verif/out/replay".to_string());
    let _ = std::fs::create_dir_all(&rdir);
    let rf = ReplayFile {
        property: prop.to_string(),
        engine: engine.to_string(),
        signature: f.sig.clone(),
        detail: f.detail.clone(),
        case: case.clone(),
    };
    let body = serde_json::to_string_pretty(&rf).unwrap();
    let mut h = std::collections::hash_map::DefaultHasher::new();
    body.hash(&mut h);
    let path = format!("{}/{}-{:016x}.json", rdir, prop, h.finish());
    std::fs::write(&path, body).unwrap();
    path
}

pub struct EvidenceIn<'a> {
    pub prop: &'a str,
    pub tier: Tier,
    pub seed: u64,
    pub level: &'a str,
    pub rule: &'a str,
    pub exhaustive: Option<bool>,
    pub assumptions: Vec<String>,
    pub extra: Value,
}

pub fn write_evidence(e: &EvidenceIn, acc: &Acc, wall_s: f64, violations: u32) {
    let edir = std::env::var("VERIF_EVIDENCE_DIR").unwrap_or_else(|_| "/verif/evidence".to_string());
    let _ = std::fs::create_dir_all(&edir);
    let mut cov = json!({
        "evaluations": acc.evaluations,
        "distinct_nontrivial": acc.shapes.len(),
        "rule": e.rule,
        "samples": if acc.samples.is_empty() { vec![json!("no sample recorded")] } else { acc.samples.clone() },
        "classes": acc.classes,
        "ops_executed": acc.ops,
        "ops_skipped": acc.skipped_ops,
        "cases_aborted_on_out_of_scope_divergence": acc.desync,
        "excluded_known": acc.excluded_known,
        "known_findings_seen": acc.known_seen,
        "notes": acc.notes,
    });
    if let Some(x) = e.exhaustive {
        cov["exhaustive"] = json!(x);
    }
    if let Value::Object(m) = &e.extra {
        for (k, v) in m {
            cov[k] = v.clone();
        }
    }
    let doc = json!({
        "property_id": e.prop,
        "tier": e.tier.name(),
        "seed": e.seed,
        "level": e.level,
        "coverage": cov,
        "assumptions": e.assumptions,
        "wall_s": wall_s,
        "violations": violations,
    });
    std::fs::write(format!("{}/{}.json", edir, e.prop), serde_json::to_string_pretty(&doc).unwrap()).unwrap();
}

/// Replay the committed regression corpus of a property. Each file is a
/// ReplayFile; `run` executes its case.
pub fn replay_corpus<T: DeserializeOwned>(prop: &str, acc: &mut Acc, run: &dyn Fn(&T, &mut Acc) -> Result<(), Failure>) -> Option<(Failure, Value)> {
    let dir = format!("/verif/corpus/{}", prop);
    let Ok(rd) = std::fs::read_dir(&dir) else { return None };
    let mut files: Vec<_> = rd.filter_map(|e| e.ok()).map(|e| e.path()).filter(|p| p.extension().map(|x| x == "json").unwrap_or(false)).collect();
    files.sort();
    for p in files {
        let Ok(s) = std::fs::read_to_string(&p) else { continue };
        let Ok(rf) = serde_json::from_str::<ReplayFile>(&s) else {
            eprintln!("corpus file {:?} does not parse", p);
            continue;
        };
        let Ok(case) = serde_json::from_value::<T>(rf.case.clone()) else {
            eprintln!("corpus case {:?} does not match the engine's case type", p);
            continue;
        };
        acc.evaluations += 1;
        acc.class("corpus-replay");
        if let Err(f) = run(&case, acc) {
            return Some((f, rf.case));
        }
    }
    None
}

pub fn print_known(prop: &str, acc: &Acc, known: &[KnownFinding]) {
    for (sig, n) in &acc.known_seen {
        let what = known.iter().find(|k| &k.signature == sig && k.property == prop).map(|k| k.what.clone()).unwrap_or_default();
        println!("KNOWN-FINDING: property={} {} ({}; seen {} times in this run)", prop, sig, what, n);
    }
}

/// Standard tail of every check: print, write evidence, compute exit code.
pub fn finish(engine: &str, out: &Outcome, ev: &EvidenceIn) -> i32 {
    let prop = ev.prop;
    let known = load_known();
    print_known(prop, &out.acc, &known);
    let viol = out.violation.is_some();
    write_evidence(ev, &out.acc, out.wall_s, if viol { 1 } else { 0 });
    match &out.violation {
        Some((f, case)) => {
            if f.sig.starts_with("harness/") {
                println!("INCONCLUSIVE property={} {}: {}", prop, f.sig, f.detail);
                return 2;
            }
            let path = write_replay(prop, engine, f, case);
            println!("{}: {}", f.sig, f.detail);
            println!("VIOLATION property={} replay={}", prop, path);
            1
        }
        None => {
            println!(
                "OK property={} tier={} evaluations={} distinct_nontrivial={} wall={:.1}s",
                prop,
                ev.tier.name(),
                out.acc.evaluations,
                out.acc.shapes.len(),
                out.wall_s
            );
            0
        }
    }
}

/// Progress counter for the watchdog: bumped once per executed case / enumeration chunk.
pub static PROGRESS: std::sync::atomic::AtomicU64 = std::sync::atomic::AtomicU64::new(0);

pub fn tick() {
    PROGRESS.fetch_add(1, Ordering::Relaxed);
}

/// A run that makes no progress for `stall_s` seconds is reported as inconclusive (exit 2):
/// a hang is never turned into a violation by the clock.
pub fn start_watchdog(stall_s: u64) {
    std::thread::spawn(move || {
        let mut last = PROGRESS.load(Ordering::Relaxed);
        let mut since = Instant::now();
        loop {
            std::thread::sleep(std::time::Duration::from_secs(2));
            let now = PROGRESS.load(Ordering::Relaxed);
            if now != last {
                last = now;
                since = Instant::now();
            } else if since.elapsed().as_secs() > stall_s {
                println!("INCONCLUSIVE: no case finished for {} s - a call into the code under test (or the harness) does not return; watchdog exit", stall_s);
                std::process::exit(2);
            }
        }
    });
}

thread_local! {
    pub static LAST_PANIC_LOC: std::cell::RefCell<String> = std::cell::RefCell::new(String::new());
}

pub fn install_quiet_panic_hook() {
    if std::env::var("VERIF_LOUD").is_ok() {
        return;
    }
    std::panic::set_hook(Box::new(|info| {
        let loc = info.location().map(|l| format!("{}:{}", l.file(), l.line())).unwrap_or_default();
        LAST_PANIC_LOC.with(|l| *l.borrow_mut() = loc);
    }));
}

pub fn last_panic_loc() -> String {
    LAST_PANIC_LOC.with(|l| l.borrow().clone())
}
