#![allow(unused_parens, clippy::all)]
pub mod api;
pub mod engines;
pub mod fsck;
pub mod fuzzing;
pub mod gen;
pub mod handles;
pub mod interp;
pub mod mkfs;
pub mod names;
pub mod ops;
pub mod runner;
pub mod sd;
pub mod selftest;
pub mod simdisk;
