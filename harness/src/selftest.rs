//! Self-test of the oracle side: the independent reader must parse back what
//! the independent formatter produced, and must read the repository's own
//! third-party image (tests/disk.img.gz, made by macOS) as documented.

use crate::fsck::{self, FatView};
use crate::gen;
use crate::mkfs::{self, content, PNode};
use crate::simdisk::{Image, Img};
use proptest::strategy::{Strategy, ValueTree};
use proptest::test_runner::{Config, RngAlgorithm, TestRng, TestRunner};
use sha2::Digest;
use std::io::Read;

fn cmp_node(img: &dyn Img, lay: &mkfs::Layout, p: &PNode, f: &fsck::FNode, errs: &mut Vec<String>) {
    if p.is_dir != f.is_dir {
        errs.push(format!("{}: dir flag", f.path));
        return;
    }
    if p.chain != f.chain {
        errs.push(format!("{}: chain {:?} vs {:?}", f.path, p.chain, f.chain));
    }
    if let Some(s) = &f.slot {
        if (s.block, s.off) != p.entry_loc {
            errs.push(format!("{}: entry loc {:?} vs {:?}", f.path, p.entry_loc, (s.block, s.off)));
        }
        if s.raw != p.raw {
            errs.push(format!("{}: raw entry differs", f.path));
        }
    }
    if !p.is_dir {
        if p.size != f.size {
            errs.push(format!("{}: size", f.path));
        }
        let data = fsck::read_file(img, lay, f);
        if data != content(p.seed, p.size) {
            errs.push(format!("{}: content", f.path));
        }
    } else {
        if p.children.len() != f.children.len() {
            errs.push(format!(
                "{}: child count {} vs {} ({:?})",
                f.path,
                p.children.len(),
                f.children.len(),
                f.children.iter().map(|c| c.path.clone()).collect::<Vec<_>>()
            ));
            return;
        }
        for (a, b) in p.children.iter().zip(f.children.iter()) {
            if Some(a.name) != b.slot.as_ref().map(|s| s.name()) {
                errs.push(format!("{}: child name order", f.path));
            }
            cmp_node(img, lay, a, b, errs);
        }
    }
}

pub fn roundtrip_spec(spec: &mkfs::DiskSpec) -> Vec<String> {
    let mut errs = Vec::new();
    let (img, pvols) = mkfs::mkfs(spec);
    let parts = match fsck::parse_mbr(&img) {
        Ok(p) => p,
        Err(e) => return vec![e],
    };
    for pv in &pvols {
        let pe = &parts[pv.slot];
        if pe.start != pv.layout.part_start || pe.len != pv.layout.part_len {
            errs.push("partition entry".into());
        }
        let lay = match fsck::parse_bpb(&img, pe.start, pe.len) {
            Ok(l) => l,
            Err(e) => {
                errs.push(format!("bpb: {}", e));
                continue;
            }
        };
        if lay != pv.layout {
            errs.push(format!("layout {:?} vs {:?}", lay, pv.layout));
            continue;
        }
        let fv = FatView::new(&img, &lay);
        let w = fsck::walk(&img, &fv, &[]);
        let viol = fsck::check_tree(&w, &lay, fsck::Mode::Live);
        if !viol.is_empty() {
            errs.push(format!("fsck on fresh image: {:?}", viol));
        }
        cmp_node(&img, &lay, &pv.root, &w.root, &mut errs);
        let inuse = fsck::in_use_set(&fv);
        let reach = fsck::reachable_set(&w);
        if inuse != reach {
            errs.push(format!("in-use {} != reachable {}", inuse.len(), reach.len()));
        }
        let vs = spec.vols[pv.slot].as_ref().unwrap();
        if !vs.usable.all {
            let nfree = fsck::free_count(&fv);
            if nfree as usize != pv.free.len() {
                errs.push(format!("free count {} vs {}", nfree, pv.free.len()));
            }
        }
        if fsck::fat_copies_differ(&img, &lay).is_some() {
            errs.push("fat copies differ".into());
        }
    }
    errs
}

pub fn load_gz(path: &str) -> std::io::Result<Image> {
    let f = std::fs::File::open(path)?;
    let mut d = flate2::read::GzDecoder::new(f);
    let mut buf = Vec::new();
    d.read_to_end(&mut buf)?;
    let n = (buf.len() / 512) as u32;
    let mut img = Image::new(n);
    for (i, c) in buf.chunks_exact(512).enumerate() {
        if c.iter().any(|x| *x != 0) {
            let mut b = [0u8; 512];
            b.copy_from_slice(c);
            img.wr(i as u32, &b);
        }
    }
    Ok(img)
}

pub fn third_party_image() -> Vec<String> {
    let mut errs = Vec::new();
    let img = match load_gz("/repo/tests/disk.img.gz") {
        Ok(i) => i,
        Err(e) => return vec![format!("cannot load disk.img.gz: {}", e)],
    };
    let parts = fsck::parse_mbr(&img).unwrap();
    // volume 0: FAT16, volume 1: FAT32
    for (slot, want32) in [(0usize, false), (1usize, true)] {
        let lay = match fsck::parse_bpb(&img, parts[slot].start, parts[slot].len) {
            Ok(l) => l,
            Err(e) => {
                errs.push(format!("slot {}: {}", slot, e));
                continue;
            }
        };
        if lay.fat32 != want32 {
            errs.push(format!("slot {} fat type", slot));
        }
        let fv = FatView::new(&img, &lay);
        let w = fsck::walk(&img, &fv, &[]);
        let viol = fsck::check_tree(&w, &lay, fsck::Mode::Live);
        if !viol.is_empty() {
            errs.push(format!("slot {} fsck: {:?}", slot, viol));
        }
        match fsck::find_path(&w.root, "/README.TXT") {
            Some(n) if n.size == 258 => {}
            other => errs.push(format!("slot {} README.TXT: {:?}", slot, other.map(|n| n.size))),
        }
        match fsck::find_path(&w.root, "/TEST/TEST.DAT") {
            Some(n) if n.size == 3500 => {
                let data = fsck::read_file(&img, &lay, n);
                let h = sha2::Sha256::digest(&data);
                let want: [u8; 32] = [
                    0x59, 0xe3, 0x46, 0x8e, 0x3b, 0xef, 0x8b, 0xfe, 0x37, 0xe6, 0x0a, 0x82, 0x21, 0xa1, 0x89, 0x6e, 0x10,
                    0x5b, 0x80, 0xa6, 0x1a, 0x23, 0x63, 0x76, 0x12, 0xac, 0x8c, 0xd2, 0x4c, 0xa0, 0x4a, 0x75,
                ];
                if h[..] != want[..] {
                    errs.push(format!("slot {} TEST.DAT sha256 mismatch", slot));
                }
            }
            other => errs.push(format!("slot {} TEST.DAT: {:?}", slot, other.map(|n| n.size))),
        }
        // the long name of FSEVEN~4 must be ".fseventsd"
        let l = w.root.listing.as_ref().unwrap();
        let want: Vec<u16> = ".fseventsd".encode_utf16().collect();
        if !l.slots.iter().any(|s| s.lfn.as_ref() == Some(&want)) {
            errs.push(format!("slot {} .fseventsd long name not found", slot));
        }
        match fsck::find_path(&w.root, "/64MB.DAT") {
            Some(n) if n.size == 64 * 1024 * 1024 && n.chain_end == fsck::ChainEnd::Eoc => {}
            _ => errs.push(format!("slot {} 64MB.DAT", slot)),
        }
    }
    errs
}

pub fn run(cases: u32) -> i32 {
    let mut failures = 0;
    let t = third_party_image();
    if !t.is_empty() {
        println!("selftest: third-party image: {:?}", t);
        failures += 1;
    } else {
        println!("selftest: third-party image parsed as documented");
    }
    let cfg = Config {
        failure_persistence: None,
        ..Config::default()
    };
    let mut runner = TestRunner::new_with_rng(cfg, TestRng::from_seed(RngAlgorithm::ChaCha, &[7u8; 32]));
    let strat = gen::disk_strategy(gen::VolBias::default(), true);
    let tight = gen::disk_strategy(gen::VolBias { tight: true, stale: true, max_depth: 3, full_dirs: true, ..gen::VolBias::default() }, true);
    let mut n_ok = 0;
    for i in 0..cases {
        let spec = if i % 2 == 0 { strat.new_tree(&mut runner).unwrap().current() } else { tight.new_tree(&mut runner).unwrap().current() };
        let errs = roundtrip_spec(&spec);
        if !errs.is_empty() {
            println!("selftest: case {} failed: {:?}", i, &errs[..errs.len().min(5)]);
            let _ = std::fs::create_dir_all("/verif/out");
            let _ = std::fs::write("/verif/out/selftest-fail.json", serde_json::to_string_pretty(&spec).unwrap());
            failures += 1;
            if failures > 3 {
                break;
            }
        } else {
            n_ok += 1;
        }
    }
    println!("selftest: {} / {} generated images round-trip through the independent reader", n_ok, cases);
    if failures == 0 {
        0
    } else {
        2
    }
}
