#!/bin/bash
# Runs every claimed check (quick by default) on the current tree; prints one line per check.
cd /verif
tier="${1:-quick}"
rc_all=0
for p in $(cat tools/claimed.txt); do
    start=$(date +%s)
    out=$(./check $p $tier 2>&1 | grep -v "Aborting shrinking" | grep -E "^(OK|VIOLATION|INCONCLUSIVE|KNOWN-FINDING)" | cut -c1-160)
    rc=$?
    echo "$p ($(( $(date +%s) - start ))s): $out"
done
python3-vt - <<'PY'
import json,jsonschema,glob
s=json.load(open('/root/.vp/EVIDENCE.schema.json'))
for f in sorted(glob.glob('/verif/evidence/*.json')):
    try:
        jsonschema.validate(json.load(open(f)),s)
    except Exception as e:
        print("INVALID EVIDENCE",f,str(e)[:200])
jsonschema.validate(json.load(open('/verif/MANIFEST.json')),json.load(open('/root/.vp/MANIFEST.schema.json')))
print("schemas ok")
PY
