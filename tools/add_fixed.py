#!/usr/bin/env python3
"""usage: add_fixed.py <prop> <signature> <commit> <replay-file> <corpus-subdir/name.json> <what failed>
Copies the shrunk replay file into /verif/corpus and appends a `fixed` entry to known_findings.json."""
import json, shutil, sys, os
prop, sig, commit, replay, dest, what = sys.argv[1:7]
os.makedirs(os.path.dirname('/verif/corpus/' + dest), exist_ok=True)
shutil.copy(replay, '/verif/corpus/' + dest)
k = json.load(open('/verif/known_findings.json'))
opens = [e for e in k if e.get('status') == 'open']
fixed = [e for e in k if e.get('status') != 'open']
fixed.append({"property": prop, "signature": sig, "status": "fixed", "commit": commit,
              "what": f"fixed: property={prop} {commit} {what}", "witness": "corpus/" + dest})
json.dump(fixed + opens, open('/verif/known_findings.json', 'w'), indent=1)
print(len(fixed), 'fixed,', len(opens), 'open')
