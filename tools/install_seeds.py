#!/usr/bin/env python3
"""usage: install_seeds.py <srcdir with <id>/ dirs> ; reads /var/tmp/seed-results/<tag>.txt ; writes /verif/seeded/<id>/ and appends table rows to /verif/out/seed-table-new.md"""
import json, os, re, shutil, sys, glob
src = sys.argv[1]
rows = []
for d in sorted(glob.glob(src + '/C*-m*')):
    s = os.path.basename(d)
    tag = d.replace('/', '_')
    f = f'/var/tmp/seed-results/{tag}.txt'
    if not os.path.exists(f):
        print('no result for', s); continue
    txt = open(f, errors='replace').read()
    r = dict(re.findall(r'RESULT (\w+)=([^\n]*)', txt))
    if not (r.get('apply') == 'ok' and r.get('suite_with_patch') == 'pass' and r.get('demo_with_patch', '').startswith('fail') and r.get('demo_without_patch', '').startswith('pass')):
        print('NOT VALID', s, r); continue
    m = json.load(open(d + '/meta.json'))
    prop = s.split('-')[0]
    m['breaks_property'] = prop
    head = re.search(r'repo HEAD (\w+)', txt).group(1)
    m['verified_by_framework_author'] = {
        'against_repo_commit': head, 'patch_applies': 'ok', 'existing_suite_with_patch': 'pass',
        'demo_with_patch': 'fail(good)', 'demo_without_patch': 'pass(good)',
        'how': f'tools/eval_seed.sh <seed dir> {prop}  (scratch git worktree of /repo + scratch copy of the harness; nothing under /repo or /verif/harness modified)'}
    fr = {}
    for p, rc, rest in re.findall(r'RESULT check_(C\d\d)=rc(\d) \(\d+s\): ([^\n]*)', txt):
        sig = re.search(r'C\d\d/[A-Za-z0-9_:-]+', rest)
        ent = {'check': f'./check {p} quick', 'exit': 'rc' + rc, 'signature': sig.group(0) if sig and rc == '1' else '-', 'output': rest[:300]}
        if p == prop:
            fr.update(ent)
        else:
            fr[p] = ent
        title = (m.get('title') or '').replace('|', '/')
        rows.append(f"| {s} | {prop} | {title} | yes | ./check {p} quick | {rc} | {sig.group(0) if sig and rc == '1' else '-'} |")
    m['framework_result'] = fr
    dst = f'/verif/seeded/{s}'
    os.makedirs(dst, exist_ok=True)
    for fn in ('patch.diff', 'demo.rs'):
        shutil.copy(d + '/' + fn, dst + '/' + fn)
    json.dump(m, open(dst + '/meta.json', 'w'), indent=1)
    print('installed', s, {k: (v['exit'] if isinstance(v, dict) else v) for k, v in fr.items() if k in ('exit',) or k.startswith('C')})
out = '/verif/out/seed-table-new.md'
old = open(out).read().splitlines() if os.path.exists(out) else []
keep = [l for l in old if not any(l.startswith(f"| {r.split('|')[1].strip()} |") for r in rows)]
open(out, 'w').write('\n'.join(keep + rows) + '\n')
