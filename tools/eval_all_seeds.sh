#!/bin/bash
# usage: eval_all.sh <glob pattern of seed ids>
for d in /verif/seeded/$1/; do
  s=$(basename $d)
  prop=$(python3 -c "import json;print(json.load(open('$d/meta.json'))['breaks_property'])")
  extra=$(python3 -c "import json;print(' '.join(k for k in json.load(open('$d/meta.json')).get('framework_result',{}).keys() if k.startswith('C') and k!='$prop'))" 2>/dev/null)
  /verif/tools/eval_seed.sh /verif/seeded/$s $prop $extra
done
