#!/usr/bin/env python3
"""Converts /var/tmp/seed-results/*.txt (written by tools/eval_seed.sh) into the table format of tools/check_seeds.sh."""
import glob, json, os, re, sys
out = sys.argv[1]
rows = ["| seed | property | title | patch applies | check | exit | signature |", "|---|---|---|---|---|---|---|"]
for f in sorted(glob.glob('/var/tmp/seed-results/_verif_seeded_*.txt')):
    s = os.path.basename(f)[len('_verif_seeded_'):-4]
    if not os.path.isdir(f'/verif/seeded/{s}'):
        continue
    m = json.load(open(f'/verif/seeded/{s}/meta.json'))
    prop = m['breaks_property']
    title = (m.get('title') or '').replace('|', '/')
    txt = open(f, errors='replace').read()
    for p, rc, rest in re.findall(r'RESULT check_(C\d\d)=rc(\d) \(\d+s\): ([^\n]*)', txt):
        sig = re.search(r'C\d\d/[A-Za-z0-9_:-]+', rest)
        ex = rc  # exit status of the check itself (1 = VIOLATION line printed)
        rows.append(f"| {s} | {prop} | {title} | yes | ./check {p} quick | {ex} | {sig.group(0) if sig else '-'} |")
open(out, 'w').write('\n'.join(rows) + '\n')
print(len(rows) - 2, 'rows')
