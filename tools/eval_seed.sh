#!/bin/bash
# usage: eval_seed.sh <seed-dir> <prop> [more props to run]
# Verifies a seeded defect in a scratch worktree and runs the checks of <prop> against it
# with a scratch copy of the harness (nothing under /repo or /verif is modified).
sd="$1"; shift
prop="$1"
tag=$(echo "$sd" | tr '/' '_')
W=/var/tmp/sw$tag
R=/var/tmp/seed-results; mkdir -p $R
out=$R/$tag.txt
exec >"$out" 2>&1
echo "== seed $sd prop $prop  (repo HEAD $(git -C /repo rev-parse --short HEAD))"
rm -rf $W; git -C /repo worktree prune; git -C /repo worktree add -q --detach $W HEAD || exit 1
cp /repo/Cargo.lock $W/
cd $W
if ! git apply "$sd/patch.diff"; then echo "RESULT apply=FAIL"; git -C /repo worktree remove --force $W; exit 0; fi
echo "RESULT apply=ok"
export CARGO_NET_OFFLINE=true CARGO_TARGET_DIR=$W/target
sleep 1.2; touch src/lib.rs src/*/*.rs
if cargo test --offline >suite.log 2>&1; then echo "RESULT suite_with_patch=pass"; else echo "RESULT suite_with_patch=FAIL"; grep -E "FAILED|panicked|error" suite.log | head -5; fi
cp "$sd/demo.rs" tests/seed_demo.rs
if cargo test --offline --features verif-hooks --test seed_demo >demo1.log 2>&1; then echo "RESULT demo_with_patch=pass(BAD)"; else echo "RESULT demo_with_patch=fail(good)"; fi
git checkout -q -- src   # not `git apply -R`: with two textually identical code sites the reverse hunk can land on the other one
# make sure cargo notices the reversal (mtime granularity)
sleep 1.2; touch src/lib.rs src/*/*.rs
if cargo test --offline --features verif-hooks --test seed_demo >demo0.log 2>&1; then echo "RESULT demo_without_patch=pass(good)"; else echo "RESULT demo_without_patch=FAIL(BAD)"; tail -5 demo0.log; fi
rm -f tests/seed_demo.rs
git apply "$sd/patch.diff"
# scratch harness against the patched worktree
mkdir -p $W/vh && cp -r /verif/harness/src /verif/harness/Cargo.toml /verif/harness/Cargo.lock /verif/harness/.cargo $W/vh/
sed -i "s|path = \"/repo\"|path = \"$W\"|" $W/vh/Cargo.toml
sed -i "s|target-dir = .*|target-dir = \"$W/vh-target\"|" $W/vh/.cargo/config.toml
unset CARGO_TARGET_DIR
cd $W/vh
if ! cargo build --quiet 2>build.log; then echo "RESULT harness_build=FAIL"; grep -E "^error" -A6 build.log | head -20; else
  for p in "$@"; do
    start=$(date +%s)
    VERIF_EVIDENCE_DIR=$W/ev VERIF_REPLAY_DIR=$R/replay-$tag timeout 1200 $W/vh-target/debug/verif check $p quick 2>/dev/null | grep -v "Aborting" | tail -2 > chk.log
    rc=${PIPESTATUS[0]}
    echo "RESULT check_$p=rc$rc ($(( $(date +%s) - start ))s): $(cat chk.log | tr '\n' ' ' | cut -c1-400)"
  done
fi
cd /; git -C /repo worktree remove --force $W
echo "== done"
