#!/usr/bin/env python3
"""Regenerates /verif/MANIFEST.json from the table below (single source)."""
import json, subprocess

CLAIMED = open('/verif/tools/claimed.txt').read().split()

P = {
 "C01": ("exploration", "fsx", "4.1", "model-based stateful PBT (proptest histories vs. byte-array model)",
   "Generated histories (geometry x tree x interleaved open/seek/read/write/flush/close over raw, RAII and embedded-io surfaces, 1-2 volumes) compared call by call with a Vec<u8> model; full re-reads of all open files (CheckAll) and a fresh mount at the end; second stage: one 2-4 GiB third-party file on a sparse FAT32 volume with 64-bit seeks, reads around marker blocks and writes at the 4 GiB - 1 size limit. Sampling of an infinite space: no absence claim.",
   "Trusts the harness's model of documented semantics and the simulated block device (atomic single-block I/O, no faults)."),
 "C02": ("exploration", "fsx", "4.2", "model-based PBT with independent FAT reader and fresh-mount differential",
   "Generated histories; at every flush/close/delete/mkdir and at the end the raw image is read by an independent FAT implementation and by a fresh VolumeManager, and every untouched directory slot/file is diffed against the initial image.",
   "Trusts the independent reader (self-tested against tests/disk.img.gz and the independent formatter) and the clock model."),
 "C03": ("exploration", "fsx", "4.3", "stateful PBT with structural invariant checker after every call",
   "Generated histories on tight volumes; an independent structural checker (chains, cross-links, sizes, names, dot entries, end marker) runs on the raw image plus pending open-file state (hook H2) after every API call, successful or not.",
   "Trusts the independent checker and hook H2 (read-only)."),
 "C04": ("exploration", "fsx", "4.4", "stateful PBT with per-call write-log classification",
   "Every device write of every generated call is diffed against its pre-image and classified by region and ownership using an independently parsed layout (MBR/boot/reserved/FAT entry/directory slot/file byte range/new cluster). Second stage: the same classifier on histories with one failing device call (full rules while the medium is consistent, region rules after a mutating call was cut short).",
   "Trusts the write log of the simulated device and the independent layout parser."),
 "C05": ("exploration", "fsx+fill", "4.5", "stateful PBT: FAT accounting invariant + capacity fill/refill cycles",
   "In-use FAT entries == reachable chains whenever no file is open; out-of-space errors must not be premature (vs. a FAT scan before the call); fill-to-full / release / refill cycles check that the bytes accepted equal the free capacity in every cycle, that they read back and that delete/truncate return every cluster.",
   "Trusts the independent FAT scan."),
 "C06": ("exploration", "dirgen", "4.6", "PBT over byte-level directory contents, differential against independent reader",
   "Byte-level generated directories (live/deleted/LFN/junk slots, labels that share their name with files or directories, sub-directory entries with start clusters outside the volume, end markers followed by stale slots, multi-cluster fragmented chains, FAT16 roots, FAT32 roots anywhere) listed and looked up through the crate and through the independent reader, including every sub-directory an entry designates and its way back; then after create/delete/mkdir histories.",
   "Trusts the independent reader's listing rules (FAT specification)."),
 "C07": ("exploration", "fsx", "4.7", "stateful PBT against a decision table from the Mode/Error documentation",
   "Open/delete/mkdir/open_dir/write matrix in arbitrary prior states; exact variants where documented, any-error where not; refused calls must leave the medium byte-identical.",
   "Decision table derived from doc comments; cells the docs leave open accept any error."),
 "C08": ("exploration", "handles", "4.8", "stateful PBT over handle-set model, 12 limit configurations, enumerated stale-handle and re-entrant calls",
   "Open/close histories over 12 (dirs,files,volumes) limit configurations with id offsets near u32::MAX and, through hook H3, with the handle counter brought round to a handle that is still open; every method (embedded-io adapters with in- and out-of-range arguments included) is called with stale handles and re-entrantly from iteration callbacks.",
   "12 of 512 limit configurations (every value 1..8 in every position)."),
 "C09": ("fault_enumeration", "crash", "4.9", "PBT histories x exhaustive crash-point enumeration over the write log",
   "For every generated history, every prefix of the block-write sequence after each successful flush/close is materialised and read by the independent reader (and a fresh mount) until the file is next modified.",
   "Block writes atomic and ordered, as the property states."),
 "C10": ("fault_enumeration", "crash", "4.10", "PBT histories x exhaustive crash-point enumeration with crash-mode structural checker",
   "Every prefix of the block-write sequence of every generated mutating history must mount and pass the crash-mode checker (no dangling/cross-linked/cyclic chains, no stale directory contents exposed, no directory entry without cluster).",
   "Block writes atomic and ordered; free clusters carry recognisable stale directory entries."),
 "C11": ("fault_enumeration", "faults", "4.11", "PBT histories x fault injection at every device-call index",
   "Each generated history is re-run with a transient fault (scribbled read buffer) at every device-call index, plus dead-device and multi-fault variants; the faulted call must return Err, handles stay usable, read-only calls succeed on retry, no duplicate names; every device call of Volume::close() fails in turn and the volume must be openable again.",
   "Fault model: a failing call returns Err to the crate and has no effect on the medium."),
 "C12": ("exploration", "sdsim", "5.1", "model-based PBT against a simulated SD card written from the SD specification",
   "Card kind x CRC x capacity x timings x read/write sequences; card memory == model everywhere; multi-block == singles; capacity == CSD formula for the register's structure version; busy after the stop token as long as after any block and starting one byte late; cards that use the byte times the timing table grants them (N_WR, N_RC), keep status error bits until read, and report out-of-range only in the status; transfers behind the last block must be refused without touching the card, transfers running over the end must fail having stored what lies in front of it.",
   "Trusts the simulated card (independent command table, CRCs and CSD encoders)."),
 "C13": ("fault_enumeration", "sdsim", "5.2", "PBT sequences x enumerated bit flips / dead / busy / garbage positions",
   "Every single-bit flip of a data block + CRC (enumerated), every bit of the CSD block with CRC off (enumerated), bursts, wrong tokens, rejected writes, wrong CMD8 echo, SPI errors and dead/busy/garbage cards from generated byte positions; Ok only with correct data; Err where the property requires it; recovery after power-cycle; SPI byte budget per driver call enforced by the card.",
   "Termination bound: 20,000,000 SPI bytes per driver call (far above what the driver's documented retry budgets allow)."),
 "C14": ("exploration", "sdsim", "5.3", "PBT with protocol-checking simulated card (monitor)",
   "All MOSI bytes of all generated fault-free runs checked against SPI-mode rules: frame, CRC-7, busy, ACMD prefix, init order, data tokens, 512+2 framing, stop tokens; second stage on sequences with one injected fault: the healthy prefix and everything sent after the card was power-cycled (calls after errors).",
   "Card modelled as a byte-stream peer that ignores chip-select framing."),
 "C15": ("exploration", "mount", "4.12", "PBT over valid layouts (independent formatter) + boundary/mutated/random sectors",
   "Valid: files placed by the independent formatter are read back through the crate for all BPB parameter combinations; invalid: field boundary values, mutations and random sectors must yield Ok or Err without panic (overflow checks on).",
   "Trusts the independent formatter (self-tested)."),
 "C16": ("exploration", "fsx", "4.13", "stateful PBT with FAT-copy comparison and FSInfo delta oracle, differential correct-vs-stale record",
   "FAT copies byte-compared after every call; FSInfo free count changed by exactly the FAT-scan delta (clamped to what is storable) and next-free hint unknown or inside the volume after every flush / close / volume close, whatever the record was at mount; same history with correct and stale record must give identical API results.",
   "Trusts the independent FAT scan."),
 "C17": ("exploration", "lfn", "6.1", "PBT + boundary enumeration against String::from_utf16_lossy and an independent LFN association rule",
   "Fragment sequences over code-unit classes and buffer sizes 0..=780 against the lossy decoding; directories with well-formed/broken runs against the specification's association rule.",
   "Reference decoding = std's from_utf16_lossy."),
 "C18": ("exploration", "codec", "6.2", "exhaustive enumeration (timestamps, short strings) + PBT round-trips against spec byte offsets and a reference 8.3 grammar",
   "All date x time field pairs per field; calendar range; entry codec via hook H1 against specification offsets; all strings up to length 3 over a 50-symbol alphabet plus generated longer ones against a reference grammar.",
   "Reference grammar from the FAT specification and the crate's documentation."),
 "C19": ("exploration", "crc", "5.4", "exhaustive enumeration (len 0..3, basis messages) + PBT against bit-serial polynomial division",
   "All messages of length 0..3, all single-bit basis messages of lengths 5/16/512, random messages, append-CRC-gives-zero, single/double/burst error detection on 512-byte blocks.",
   "Reference = bit-serial long division over GF(2)."),
}

def main():
    head = subprocess.run(["git","-C","/repo","log","--format=%h %s"],capture_output=True,text=True).stdout.splitlines()
    hooks=[l.split()[0] for l in head if "verif-hooks" in l]
    checks=[]
    na=[]
    for pid,(level,engine,ref,tech,text,note) in P.items():
        if pid in CLAIMED:
            checks.append({
              "property_id": pid,
              "quick_cmd": f"./check {pid} quick",
              "thorough_cmd": f"./check {pid} thorough",
              "evidence_file": f"/verif/evidence/{pid}.json",
              "replay_cmd_template": "./check replay {path}",
              "engine": engine,
              "level_claimed": {"category": level, "text": text, "design_ref": f"DESIGN.md section {ref}"},
              "level_note": note,
              "technique": tech,
            })
        else:
            na.append({"property_id": pid, "reason": "check not finished yet in this revision of /verif (property-based testing does apply; see DESIGN.md section %s)" % ref})
    engines=[
      {"name":"fsx","path":"harness/src/engines/fsx.rs","serves_properties":["C01","C02","C03","C04","C05","C06","C07","C08","C16"],"kind_free_text":"proptest-generated histories (geometry x tree x ops) interpreted against crate + reference model; per-property oracle after every call (harness/src/interp.rs, engines/c04.rs, engines/c05.rs, handles.rs)"},
      {"name":"crash","path":"harness/src/engines/crash.rs","serves_properties":["C09","C10"],"kind_free_text":"generated histories x every prefix of the block-write log, read by the independent reader/checker and a fresh mount"},
      {"name":"faults","path":"harness/src/engines/faults.rs","serves_properties":["C11"],"kind_free_text":"generated histories x injected device fault at every device-call index (transient, dead-from, multi)"},
      {"name":"dirgen","path":"harness/src/engines/dirgen.rs","serves_properties":["C06","C17"],"kind_free_text":"byte-level generated directories compared with the independent reader; LFN association expectations by construction"},
      {"name":"mount","path":"harness/src/engines/mount.rs","serves_properties":["C15"],"kind_free_text":"valid layouts from the independent formatter + enumerated boundary fields + mutated/random sectors"},
      {"name":"pure","path":"harness/src/engines/pure.rs","serves_properties":["C17","C18","C19"],"kind_free_text":"exhaustive enumerations and proptest round-trips against reference implementations (bit-serial CRC, from_utf16_lossy, reference 8.3 grammar, spec byte offsets)"},
      {"name":"sdsim","path":"harness/src/sd/","serves_properties":["C12","C13","C14"],"kind_free_text":"simulated SD card on SPI (memory array + protocol monitor + fault script) written from the SD specification; proptest sequences"},
      {"name":"oracle-side","path":"harness/src/{simdisk,mkfs,fsck}.rs","serves_properties":["C01","C02","C03","C04","C05","C06","C09","C10","C11","C15","C16"],"kind_free_text":"simulated block device with write log / fault plan, independent FAT formatter, independent FAT reader and structural checker (self-tested in setup)"},
    ]
    m={
      "version":1,
      "setup_cmd":"./check setup",
      "hooks":{
        "guard":"verif-hooks",
        "enable":"cargo feature verif-hooks of /repo, enabled by the path dependency in /verif/harness/Cargo.toml (default-features = false, features = [\"verif-hooks\"])",
        "baseline_off_cmd":"cd /repo && cargo test --workspace --no-fail-fast --offline",
        "source_commits":hooks,
        "add_only":True,
      },
      "engines":engines,
      "checks":checks,
      "not_applicable":na,
      "notes":"Technique family: property-based testing and fuzzing. Exit 2 = inconclusive (build failure, crash of the harness process, watchdog). Known findings: /verif/known_findings.json.",
    }
    json.dump(m,open('/verif/MANIFEST.json','w'),indent=1)
    print("claimed:",[c["property_id"] for c in checks])

main()
