#!/bin/bash
# Re-runs the quick check(s) of every seeded defect under /verif/seeded against the CURRENT
# /repo HEAD + CURRENT harness (scratch worktree + scratch harness copy; /repo and
# /verif/harness are not modified). Writes /verif/out/seed-table.md.
# usage: [SEED_SCRATCH=dir SEED_TABLE=file] tools/check_seeds.sh [pattern]   (several lanes can run side by side)
pat="${1:-*}"
R=${SEED_SCRATCH:-/var/tmp/seedcheck}; mkdir -p $R
out=${SEED_TABLE:-/verif/out/seed-table.md}
echo "| seed | property | title | patch applies | check | exit | signature |" > $out
echo "|---|---|---|---|---|---|---|" >> $out
for d in /verif/seeded/$pat/; do
    s=$(basename $d)
    prop=$(python3 -c "import json;print(json.load(open('$d/meta.json'))['breaks_property'])")
    title=$(python3 -c "import json;print((json.load(open('$d/meta.json')).get('title') or '').replace('|','/'))")
    extra=$(python3 -c "import json;print(' '.join(k for k in json.load(open('$d/meta.json')).get('framework_result',{}).keys() if k.startswith('C') and k!='$prop'))" 2>/dev/null)
    W=$R/wt
    rm -rf $W; git -C /repo worktree prune; git -C /repo worktree add -q --detach $W HEAD || continue
    cp /repo/Cargo.lock $W/
    if ! git -C $W apply "$d/patch.diff" 2>/dev/null; then
        echo "| $s | $prop | $title | NO (rebase needed) | - | - | - |" >> $out
        git -C /repo worktree remove --force $W; continue
    fi
    mkdir -p $W/vh && cp -r /verif/harness/src /verif/harness/Cargo.toml /verif/harness/Cargo.lock /verif/harness/.cargo $W/vh/
    sed -i "s|path = \"/repo\"|path = \"$W\"|" $W/vh/Cargo.toml
    sed -i "s|target-dir = .*|target-dir = \"$R/vh-target\"|" $W/vh/.cargo/config.toml
    if ! (cd $W/vh && cargo build --quiet 2>$R/build.log); then
        echo "| $s | $prop | $title | yes | (harness does not build against the patch) | 2 | - |" >> $out
        git -C /repo worktree remove --force $W; continue
    fi
    for p in $prop $extra; do
        res=$(cd $W/vh && VERIF_EVIDENCE_DIR=$R/ev VERIF_REPLAY_DIR=$R/replay timeout 1500 $R/vh-target/debug/verif check $p quick 2>/dev/null | grep -av Aborting | tail -2)
        rc=$?
        sig=$(echo "$res" | grep -aoE "C[0-9]{2}/[A-Za-z0-9_:-]+" | head -1)
        if echo "$res" | grep -aq "^VIOLATION"; then ex=1; elif echo "$res" | grep -aq "^OK property"; then ex=0; else ex=2; fi
        echo "| $s | $prop | $title | yes | ./check $p quick | $ex | ${sig:--} |" >> $out
    done
    git -C /repo worktree remove --force $W
done
echo "written $out"
