#!/bin/bash
# (development helper: needs a scratch copy of the harness at /var/tmp/dev-harness, see DESIGN.md section 8)
# usage: devseed.sh <seed-id> <prop> [more props]  -- runs dev-harness quick checks against HEAD+seed patch
s=$1; shift
W=/var/tmp/wt-dev-$(basename $(dirname $s))$(basename $s); rm -rf $W; git -C /repo worktree prune; git -C /repo worktree add -q --detach $W HEAD || exit 3
cp /repo/Cargo.lock $W/; git -C $W apply $( [ -d "$s" ] && echo "$s" || echo /verif/seeded/$s )/patch.diff || { echo "patch does not apply"; exit 3; }
mkdir -p $W/vh; cp -r /var/tmp/dev-harness/src /var/tmp/dev-harness/Cargo.toml /var/tmp/dev-harness/Cargo.lock /var/tmp/dev-harness/.cargo $W/vh/
sed -i "s|path = \"/repo\"|path = \"$W\"|" $W/vh/Cargo.toml
sed -i "s|target-dir = .*|target-dir = \"/var/tmp/dev-target-seed\"|" $W/vh/.cargo/config.toml
(cd $W/vh && cargo build --quiet 2>&1 | grep -E "^error" -A 8 | head -20)
for p in "$@"; do
  (cd $W/vh && VERIF_EVIDENCE_DIR=/var/tmp/dev-ev-seed VERIF_REPLAY_DIR=/var/tmp/dev-replay-seed timeout 1500 /var/tmp/dev-target-seed/debug/verif check $p quick 2>/dev/null | grep -av Aborting | tail -3 | cut -c1-400)
done
git -C /repo worktree remove --force $W
